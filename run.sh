#!/bin/bash
# usage: run.sh <property-id> <quick|thorough> [extra celcheck flags]
# Builds the checker from /verif/checker (incremental) and runs one property's
# rules against the current working tree of /repo.
set -u
cd "$(dirname "$0")"
export GOFLAGS=-mod=mod GOPROXY=off
unset GOWORK GOSUMDB GOTOOLCHAIN
PROP="$1"; TIER="${2:-${VERIF_TIER:-quick}}"; shift; shift || true
mkdir -p bin evidence
( cd checker && go build -o ../bin/celcheck . ) || { echo "UNRESOLVED build of checker failed"; exit 2; }
exec ./bin/celcheck -repo "${VERIF_REPO:-/repo}" -verif "$(pwd)" -prop "$PROP" -tier "$TIER" "$@"
