#!/bin/bash
# usage: seedtest.sh <prop> <patch.diff>  - applies a seeded change to /repo, runs the property's quick check, reverts.
set -u
P="$1"; PATCH="$2"
cd /repo || exit 3
if ! git diff --quiet; then echo "repo dirty"; exit 3; fi
if ! git apply --check "$PATCH" 2>/dev/null; then
  if ! git apply --3way "$PATCH" 2>/tmp/apply.err; then echo "PATCH-DOES-NOT-APPLY"; cat /tmp/apply.err | head -5; git reset -q --hard HEAD; exit 4; fi
  git reset -q
else
  git apply "$PATCH"
fi
/verif/bin/celcheck -prop "$P" 2>&1 | grep -v "^      \|^  R\|^OK" | cut -c1-400
git checkout -- .
