package main

import (
	"fmt"
	"go/ast"
	"go/constant"
	"go/token"
	"go/types"
	"reflect"
	"sort"
	"strings"

	"golang.org/x/tools/go/ssa"
)

func init() {
	register("C19", runC19,
		"Static enumeration of the whole JSON-RPC surface. R19.1: every (namespace, Module, *API) triple registered in nodebuilder/rpc has, for every interface method, an Internal field of identical signature carrying a perm tag from perms.AllPerms, and every *API method is a pure forwarder to the same-named Internal field with parameters in order. R19.2: RegisterService registers the raw service only on the authDisabled side and otherwise the PermissionedProxy-filled API struct with (AllPerms, DefaultPerms=[public]); the handler stack installs authHandler on every non-authDisabled path; verifyAuth hands out a perms.* set only on the authDisabled side. R19.3: ExtractSignedPermissions returns permissions only behind jwt.Parse success, json decoding success and the expiry comparison; no first-party call to jwt.ParseNoVerify. R19.4: policy by effect - for every module method the implementation is resolved and the sink classes reachable over the call graph (tx submission, credential minting/verification, libp2p identity/peers/reconfiguration, log-level change) are computed; the perm tag must be at least the class minimum. Not decided: behaviour of go-jsonrpc's proxy/handler and the JWT library (dependencies).",
		"go-jsonrpc auth.PermissionedProxy enforces the perm tag of each Internal field against the caller's permissions (read once; dependency)",
		"cristalhq/jwt Parse verifies the signature with the given verifier (dependency)")
}

func ifaceOperandType(v ssa.Value) types.Type {
	switch x := v.(type) {
	case *ssa.MakeInterface:
		return x.X.Type()
	case *ssa.ChangeInterface:
		return x.X.Type()
	}
	return nil
}

var permRank = map[string]int{"public": 0, "read": 1, "write": 2, "admin": 3}

type rpcModule struct {
	ns     string
	iface  *types.Named
	api    *types.Named
	pos    token.Pos
	fields map[string]*types.Var
	tags   map[string]string
}

func runC19(c *Check) {
	p := c.P
	c.Rule("R19.1a", "every Module interface method has an Internal field with identical signature and a perm tag in perms.AllPerms; no extra field")
	c.Rule("R19.1b", "every method of *API is a pure forwarder to api.Internal.<same name>(params in order)")
	c.Rule("R19.1c", "registered namespaces are distinct and equal the client's module map")
	c.Rule("R19.2a", "RegisterService: raw service registered only on authDisabled side; otherwise PermissionedProxy(AllPerms, DefaultPerms, service, Internal(out)) precedes Register(out)")
	c.Rule("R19.2b", "perms.DefaultPerms == [public], AllPerms == [public read write admin]; never reassigned")
	c.Rule("R19.2c", "newHandlerStack: every non-authDisabled path to return passes authHandler; auth.Handler.Verify is verifyAuth")
	c.Rule("R19.2d", "verifyAuth returns a perms.* permission set only on the authDisabled side")
	c.Rule("R19.3a", "ExtractSignedPermissions: success return only behind jwt.Parse success, claims decoding success and the expiry test")
	c.Rule("R19.3b", "no first-party call to jwt.ParseNoVerify (matcher proven live on jwt.Parse)")
	c.Rule("R19.4", "policy by effect: perm tag >= minimum required by the sink classes reachable from the method's implementation")

	mods := c19Surface(c)
	c19Register(c)
	c19Perms(c)
	c19Handler(c)
	c19Token(c)
	c19Policy(c, mods)
	_ = p
	c19PayloadKeys(c)
}

func c19Surface(c *Check) []*rpcModule {
	p := c.P
	reg := p.Func("nodebuilder/rpc", "", "registerEndpoints")
	if reg == nil {
		c.Unresolved("R19.1", "nodebuilder/rpc.registerEndpoints not found")
		return nil
	}
	c.SawFunc(reg)
	allPerms := c19PermStrings(c, "AllPerms")
	okTag := map[string]bool{}
	for _, s := range allPerms {
		okTag[s] = true
	}
	var mods []*rpcModule
	// every call to (*rpc.Server).RegisterService anywhere in non-test first-party code
	sites := p.allCallSites(func(o *types.Func) bool { return objIs(o, modPath+"/api/rpc", "Server", "RegisterService") })
	for _, s := range sites {
		c.callSites++
		args := s.Common().Args // recv, ns, service, out
		if len(args) != 4 {
			c.Unresolved("R19.1", "RegisterService call shape at "+p.Pos(s.Pos()))
			continue
		}
		m := &rpcModule{pos: s.Pos(), fields: map[string]*types.Var{}, tags: map[string]string{}}
		if k, ok := args[1].(*ssa.Const); ok && k.Value != nil && k.Value.Kind() == constant.String {
			m.ns = constant.StringVal(k.Value)
		} else {
			c.Ob("R19.1c", "RegisterService@"+fnName(s.Parent()), false, p.Pos(s.Pos()), "namespace is not a constant string")
			continue
		}
		if t := ifaceOperandType(args[2]); t != nil {
			m.iface = derefNamed(t)
		}
		if t := ifaceOperandType(args[3]); t != nil {
			m.api = derefNamed(t)
		}
		if m.iface == nil || m.api == nil {
			c.Unresolved("R19.1", "cannot resolve module/API types at "+p.Pos(s.Pos()))
			continue
		}
		mods = append(mods, m)
	}
	c.Floor("R19.1", "registered RPC modules", len(mods), 8)
	nsSeen := map[string]bool{}
	nMethods, nFwd := 0, 0
	for _, m := range mods {
		name := m.ns + ":" + m.api.Obj().Pkg().Name() + ".API"
		c.Ob("R19.1c", "namespace "+m.ns, !nsSeen[m.ns], p.Pos(m.pos), "namespace registered once")
		nsSeen[m.ns] = true
		it, ok := m.iface.Underlying().(*types.Interface)
		if !ok {
			c.Ob("R19.1a", name, false, p.Pos(m.pos), "service argument is not of an interface (Module) type: "+m.iface.String())
			continue
		}
		st, ok := m.api.Underlying().(*types.Struct)
		if !ok {
			c.Unresolved("R19.1", name+" API is not a struct")
			continue
		}
		var internal *types.Struct
		for i := 0; i < st.NumFields(); i++ {
			if st.Field(i).Name() == "Internal" {
				internal, _ = st.Field(i).Type().Underlying().(*types.Struct)
			}
		}
		if internal == nil {
			c.Ob("R19.1a", name, false, p.Pos(m.pos), "API struct has no Internal struct field")
			continue
		}
		for i := 0; i < internal.NumFields(); i++ {
			f := internal.Field(i)
			m.fields[f.Name()] = f
			m.tags[f.Name()] = reflect.StructTag(internal.Tag(i)).Get("perm")
		}
		for i := 0; i < it.NumMethods(); i++ {
			meth := it.Method(i)
			nMethods++
			key := m.ns + "." + meth.Name()
			f := m.fields[meth.Name()]
			if f == nil {
				c.Ob("R19.1a", key, false, p.Pos(meth.Pos()), "interface method has no Internal field: it would be exposed (auth disabled) or dropped (auth enabled) without a permission")
				continue
			}
			fs, _ := f.Type().Underlying().(*types.Signature)
			ms := meth.Type().(*types.Signature)
			if fs == nil || !types.Identical(types.NewSignatureType(nil, nil, nil, ms.Params(), ms.Results(), ms.Variadic()), fs) {
				c.Ob("R19.1a", key, false, p.Pos(f.Pos()), "Internal field signature differs from the interface method")
				continue
			}
			tag := m.tags[meth.Name()]
			c.Ob("R19.1a", key, okTag[tag], p.Pos(f.Pos()), fmt.Sprintf("perm tag %q in %v", tag, allPerms))
		}
		for fname, f := range m.fields {
			found := false
			for i := 0; i < it.NumMethods(); i++ {
				if it.Method(i).Name() == fname {
					found = true
				}
			}
			if !found {
				c.Ob("R19.1a", m.ns+"."+fname, false, p.Pos(f.Pos()), "Internal field without interface method")
			}
		}
		// forwarders
		ms := p.SSA.MethodSets.MethodSet(types.NewPointer(m.api))
		for i := 0; i < ms.Len(); i++ {
			sel := ms.At(i)
			fn := p.SSA.MethodValue(sel)
			if fn == nil || fn.Blocks == nil || !token.IsExported(sel.Obj().Name()) {
				continue
			}
			nFwd++
			c.SawFunc(fn)
			ok, why := isInternalForwarder(fn, sel.Obj().Name())
			c.Ob("R19.1b", m.ns+"."+sel.Obj().Name(), ok, p.Pos(fn.Pos()), why)
		}
	}
	c.Floor("R19.1", "perm-tagged module methods", nMethods, 72)
	c.Floor("R19.1", "forwarding methods", nFwd, 72)
	// client module map
	if mm := p.Func("api/rpc/client", "", "moduleMap"); mm != nil {
		c.SawFunc(mm)
		clientNS := map[string]string{}
		for _, b := range mm.Blocks {
			for _, ins := range b.Instrs {
				if mu, ok := ins.(*ssa.MapUpdate); ok {
					if k, ok := mu.Key.(*ssa.Const); ok && k.Value != nil {
						tn := ""
						if mi, ok := mu.Value.(*ssa.MakeInterface); ok {
							if fa, ok := mi.X.(*ssa.FieldAddr); ok { // &client.X.Internal
								if fa2, ok := fa.X.(*ssa.FieldAddr); ok {
									if n := derefNamed(fa2.Type()); n != nil {
										tn = n.String()
									}
									if fieldOf(fa) == nil || fieldOf(fa).Name() != "Internal" {
										tn = ""
									}
								}
							}
						}
						clientNS[constant.StringVal(k.Value)] = tn
					}
				}
			}
		}
		for _, m := range mods {
			got, ok := clientNS[m.ns]
			c.Ob("R19.1c", "client."+m.ns, ok && got == m.api.String(), p.Pos(mm.Pos()), "client module map binds "+m.ns+" to "+m.api.String()+".Internal (got "+got+")")
		}
		for ns := range clientNS {
			if !nsSeen[ns] {
				c.Ob("R19.1c", "client."+ns, false, p.Pos(mm.Pos()), "client lists a namespace the server does not register")
			}
		}
	} else {
		c.Unresolved("R19.1c", "api/rpc/client.moduleMap not found")
	}
	return mods
}

// isInternalForwarder: fn's only call is api.Internal.<name>(params...) and its
// results are returned unchanged.
func isInternalForwarder(fn *ssa.Function, name string) (bool, string) {
	var calls []*ssa.Call
	for _, b := range fn.Blocks {
		for _, ins := range b.Instrs {
			if cl, ok := ins.(*ssa.Call); ok {
				calls = append(calls, cl)
			}
			switch ins.(type) {
			case *ssa.Go, *ssa.Defer:
				return false, "go/defer in API forwarder"
			}
		}
	}
	if len(calls) != 1 {
		return false, fmt.Sprintf("%d calls in forwarder, want exactly 1", len(calls))
	}
	cl := calls[0]
	ld, ok := cl.Call.Value.(*ssa.UnOp)
	if !ok || ld.Op != token.MUL {
		return false, "callee is not a load of an Internal field"
	}
	fa, ok := ld.X.(*ssa.FieldAddr)
	if !ok || fieldOf(fa) == nil {
		return false, "callee is not a field"
	}
	if fieldOf(fa).Name() != name {
		return false, "forwards to Internal." + fieldOf(fa).Name() + " instead of Internal." + name
	}
	fa2, ok := fa.X.(*ssa.FieldAddr)
	if !ok || fieldOf(fa2) == nil || fieldOf(fa2).Name() != "Internal" || fa2.X != fn.Params[0] {
		return false, "callee field is not api.Internal.<name>"
	}
	if len(cl.Call.Args) != len(fn.Params)-1 {
		return false, "argument count differs from parameter count"
	}
	for i, a := range cl.Call.Args {
		if a != fn.Params[i+1] {
			return false, fmt.Sprintf("argument %d is not parameter %d (%s)", i, i, fn.Params[i+1].Name())
		}
	}
	for _, r := range returnsOf(fn) {
		if len(r.Results) == 1 {
			if r.Results[0] != ssa.Value(cl) {
				return false, "returns something other than the forwarded result"
			}
			continue
		}
		for i, rv := range r.Results {
			ex, ok := rv.(*ssa.Extract)
			if !ok || ex.Tuple != ssa.Value(cl) || ex.Index != i {
				return false, "returns something other than the forwarded results in order"
			}
		}
	}
	return true, "forwards to api.Internal." + name + " with parameters in order"
}

func c19PermStrings(c *Check, name string) []string {
	pk := c.P.Pkg("api/rpc/perms")
	if pk == nil {
		c.Unresolved("R19.2b", "package api/rpc/perms not found")
		return nil
	}
	for _, f := range pk.Syntax {
		for _, d := range f.Decls {
			gd, ok := d.(*ast.GenDecl)
			if !ok || gd.Tok != token.VAR {
				continue
			}
			for _, sp := range gd.Specs {
				vs := sp.(*ast.ValueSpec)
				for i, n := range vs.Names {
					if n.Name != name || i >= len(vs.Values) {
						continue
					}
					cl, ok := vs.Values[i].(*ast.CompositeLit)
					if !ok {
						return nil
					}
					var out []string
					for _, e := range cl.Elts {
						tv := pk.TypesInfo.Types[e]
						if tv.Value == nil || tv.Value.Kind() != constant.String {
							return nil
						}
						out = append(out, constant.StringVal(tv.Value))
					}
					return out
				}
			}
		}
	}
	return nil
}

func c19Perms(c *Check) {
	p := c.P
	want := map[string][]string{
		"DefaultPerms": {"public"},
		"AllPerms":     {"public", "read", "write", "admin"},
	}
	for _, n := range []string{"DefaultPerms", "AllPerms"} {
		got := c19PermStrings(c, n)
		c.Ob("R19.2b", "perms."+n, reflect.DeepEqual(got, want[n]), "api/rpc/perms", fmt.Sprintf("value %v, want %v", got, want[n]))
	}
	// no stores to perms globals outside the package initialiser, and no element stores
	sp := p.SSAPkg("api/rpc/perms")
	if sp == nil {
		c.Unresolved("R19.2b", "ssa package perms")
		return
	}
	globals := map[*ssa.Global]bool{}
	for _, n := range []string{"DefaultPerms", "ReadPerms", "ReadWritePerms", "AllPerms"} {
		if g, ok := sp.Members[n].(*ssa.Global); ok {
			globals[g] = true
		}
	}
	bad := 0
	for _, f := range p.SrcFuncs {
		if f.Name() == "init" && f.Pkg == sp || p.IsTestPos(rootFunc(f).Pos()) {
			continue
		}
		for _, b := range f.Blocks {
			for _, ins := range b.Instrs {
				st, ok := ins.(*ssa.Store)
				if !ok {
					continue
				}
				if g, ok := st.Addr.(*ssa.Global); ok && globals[g] {
					bad++
					c.Ob("R19.2b", "store:"+g.Name()+"@"+fnName(f), false, p.Pos(st.Pos()), "permission set reassigned outside its initialiser")
				}
				if ia, ok := st.Addr.(*ssa.IndexAddr); ok {
					if ld, ok := ia.X.(*ssa.UnOp); ok {
						if g, ok := ld.X.(*ssa.Global); ok && globals[g] {
							bad++
							c.Ob("R19.2b", "elemstore:"+g.Name()+"@"+fnName(f), false, p.Pos(st.Pos()), "permission set element overwritten")
						}
					}
				}
			}
		}
	}
	c.Ob("R19.2b", "perms.* immutable", bad == 0, "api/rpc/perms", fmt.Sprintf("%d stores to perms globals outside init", bad))
}

func isLoadOfGlobal(v ssa.Value, pkgRel, name string) bool {
	ld, ok := v.(*ssa.UnOp)
	if !ok || ld.Op != token.MUL {
		return false
	}
	g, ok := ld.X.(*ssa.Global)
	return ok && g.Name() == name && g.Pkg != nil && g.Pkg.Pkg.Path() == modPath+"/"+pkgRel
}

// fieldTestCut cuts the edges of `if recv.<field>` (a bool field of the receiver):
// side true/false selected by wantTrue.
func boolFieldCut(fieldName string, cutWhenTrue bool) EdgeCut {
	return func(b *ssa.BasicBlock, ifi *ssa.If) (bool, bool) {
		a := stripNot(ifi.Cond)
		ld, ok := a.Base.(*ssa.UnOp)
		if !ok || ld.Op != token.MUL {
			return false, false
		}
		fa, ok := ld.X.(*ssa.FieldAddr)
		if !ok || fieldOf(fa) == nil || fieldOf(fa).Name() != fieldName {
			return false, false
		}
		t := cutWhenTrue != a.Neg
		return t, !t
	}
}

func blocksWhere(fn *ssa.Function, pred func(ssa.Instruction) bool) map[*ssa.BasicBlock]bool {
	out := map[*ssa.BasicBlock]bool{}
	for _, b := range fn.Blocks {
		for _, ins := range b.Instrs {
			if pred(ins) {
				out[b] = true
			}
		}
	}
	return out
}

func c19Register(c *Check) {
	p := c.P
	fn := p.Func("api/rpc", "Server", "RegisterService")
	if fn == nil {
		c.Unresolved("R19.2a", "(*rpc.Server).RegisterService not found")
		return
	}
	c.SawFunc(fn)
	if len(fn.Params) != 4 {
		c.Unresolved("R19.2a", "RegisterService signature changed")
		return
	}
	service, out := fn.Params[2], fn.Params[3]
	var regs []*ssa.Call
	var proxy []*ssa.Call
	for _, b := range fn.Blocks {
		for _, ins := range b.Instrs {
			cl, ok := ins.(*ssa.Call)
			if !ok {
				continue
			}
			o := calleeObj(&cl.Call)
			if o == nil {
				continue
			}
			if o.Name() == "Register" && strings.HasSuffix(pkgPathOf(o), "go-jsonrpc") {
				regs = append(regs, cl)
			}
			if o.Name() == "PermissionedProxy" && strings.HasSuffix(pkgPathOf(o), "go-jsonrpc/auth") {
				proxy = append(proxy, cl)
			}
		}
	}
	c.Floor("R19.2a", "rpc.Register calls in RegisterService", len(regs), 2)
	c.Floor("R19.2a", "PermissionedProxy calls in RegisterService", len(proxy), 1)
	// proxy argument shape
	goodProxy := map[*ssa.Call]bool{}
	for _, px := range proxy {
		a := px.Call.Args
		ok := len(a) == 4 && isLoadOfGlobal(a[0], "api/rpc/perms", "AllPerms") && isLoadOfGlobal(a[1], "api/rpc/perms", "DefaultPerms") && a[2] == service
		why := "PermissionedProxy(AllPerms, DefaultPerms, service, Internal(out))"
		if ok {
			gi, isCall := a[3].(*ssa.Call)
			ok = isCall && gi.Call.StaticCallee() != nil && gi.Call.StaticCallee().Name() == "getInternalStruct" && len(gi.Call.Args) == 1 && gi.Call.Args[0] == out
			if ok {
				// getInternalStruct selects field "Internal"
				gis := gi.Call.StaticCallee()
				c.SawFunc(gis)
				found := false
				for _, b := range gis.Blocks {
					for _, ins := range b.Instrs {
						if cl, ok := ins.(*ssa.Call); ok {
							if o := calleeObj(&cl.Call); o != nil && o.Name() == "FieldByName" {
								if k, ok := cl.Call.Args[len(cl.Call.Args)-1].(*ssa.Const); ok && k.Value != nil && constant.StringVal(k.Value) == "Internal" {
									found = true
								}
							}
						}
					}
				}
				if !found {
					ok, why = false, "getInternalStruct does not select field \"Internal\""
				}
			} else {
				why = "4th argument is not getInternalStruct(out)"
			}
		} else {
			why = "PermissionedProxy arguments are not (perms.AllPerms, perms.DefaultPerms, service, ...)"
		}
		c.Ob("R19.2a", "PermissionedProxy args", ok, p.Pos(px.Pos()), why)
		goodProxy[px] = ok
	}
	for _, r := range regs {
		obj := r.Call.Args[len(r.Call.Args)-1]
		switch obj {
		case ssa.Value(service):
			// must be unreachable unless authDisabled is true
			res := gateWalk(p, fn, map[*ssa.BasicBlock]bool{r.Block(): true}, boolFieldCut("authDisabled", true), nil)
			c.Ob("R19.2a", "Register(service)", !res.Reached && !res.Overflow, p.Pos(r.Pos()), "raw service registered only behind s.authDisabled == true", res.Witness...)
		case ssa.Value(out):
			// every path to it passes a well-formed PermissionedProxy call, or authDisabled
			barrier := map[*ssa.BasicBlock]bool{}
			for px, ok := range goodProxy {
				if ok {
					barrier[px.Block()] = true
				}
			}
			ok := true
			var wit []string
			if !barrier[r.Block()] || !precedesInBlock(proxyIn(r.Block(), goodProxy), r) {
				res := gateWalkBarrier(p, fn, map[*ssa.BasicBlock]bool{r.Block(): true}, nil, barrier)
				ok = !res.Reached
				wit = res.Witness
			}
			c.Ob("R19.2a", "Register(out)", ok, p.Pos(r.Pos()), "Register(out) only after PermissionedProxy filled out.Internal", wit...)
		default:
			c.Ob("R19.2a", "Register(?)", false, p.Pos(r.Pos()), "registers an object that is neither service nor out")
		}
	}
}

func proxyIn(b *ssa.BasicBlock, m map[*ssa.Call]bool) ssa.Instruction {
	for _, ins := range b.Instrs {
		if cl, ok := ins.(*ssa.Call); ok && m[cl] {
			return cl
		}
	}
	return nil
}

func precedesInBlock(a, b ssa.Instruction) bool {
	if a == nil || b == nil || a.Block() != b.Block() {
		return false
	}
	for _, ins := range a.Block().Instrs {
		if ins == a {
			return true
		}
		if ins == b {
			return false
		}
	}
	return false
}

// gateWalkBarrier: like gateWalk but additionally never leaves a barrier block.
func gateWalkBarrier(p *Program, fn *ssa.Function, targets map[*ssa.BasicBlock]bool, cut EdgeCut, barrier map[*ssa.BasicBlock]bool) GateResult {
	c2 := func(b *ssa.BasicBlock, ifi *ssa.If) (bool, bool) {
		if barrier[b] {
			return true, true
		}
		if cut != nil {
			return cut(b, ifi)
		}
		return false, false
	}
	// barrier blocks that end in Jump: handled by removing them from the walk via targets check
	return gateWalkOpts(p, fn, targets, c2, nil, barrier)
}

func c19Handler(c *Check) {
	p := c.P
	fn := p.Func("api/rpc", "Server", "newHandlerStack")
	ah := p.Func("api/rpc", "Server", "authHandler")
	va := p.Func("api/rpc", "Server", "verifyAuth")
	if fn == nil || ah == nil || va == nil {
		c.Unresolved("R19.2c", "newHandlerStack/authHandler/verifyAuth not found")
		return
	}
	c.SawFunc(fn)
	c.SawFunc(ah)
	c.SawFunc(va)
	barrier := blocksWhere(fn, func(ins ssa.Instruction) bool {
		cl, ok := ins.(*ssa.Call)
		return ok && cl.Call.StaticCallee() == ah
	})
	c.Floor("R19.2c", "authHandler call sites in newHandlerStack", len(barrier), 1)
	for _, r := range returnsOf(fn) {
		res := gateWalkBarrier(p, fn, map[*ssa.BasicBlock]bool{r.Block(): true}, boolFieldCut("authDisabled", true), barrier)
		// and the returned handler depends on an authHandler result
		sl := backSlice(r.Results[0], SliceOpt{CallArgs: true})
		dep := sl.Has(func(v ssa.Value) bool {
			cl, ok := v.(*ssa.Call)
			return ok && cl.Call.StaticCallee() == ah
		})
		c.Ob("R19.2c", "newHandlerStack return", !res.Reached && dep, p.Pos(r.Pos()),
			"every path with authDisabled==false passes s.authHandler(...) and the returned handler derives from it", res.Witness...)
	}
	// authHandler builds auth.Handler{Verify: s.verifyAuth, Next: next.ServeHTTP}
	okVerify := false
	for _, b := range ah.Blocks {
		for _, ins := range b.Instrs {
			st, ok := ins.(*ssa.Store)
			if !ok {
				continue
			}
			fa, ok := st.Addr.(*ssa.FieldAddr)
			if !ok || fieldOf(fa) == nil || fieldOf(fa).Name() != "Verify" {
				continue
			}
			if mc, ok := st.Val.(*ssa.MakeClosure); ok {
				if bf, ok := mc.Fn.(*ssa.Function); ok && strings.HasPrefix(bf.Name(), "verifyAuth$bound") && len(mc.Bindings) == 1 && mc.Bindings[0] == ah.Params[0] {
					okVerify = true
				}
			}
		}
	}
	c.Ob("R19.2c", "auth.Handler.Verify", okVerify, p.Pos(ah.Pos()), "auth.Handler.Verify is the bound method s.verifyAuth")
	// R19.2d verifyAuth
	n := 0
	for _, r := range returnsOf(va) {
		sl := backSlice(r.Results[0], SliceOpt{CallArgs: true})
		usesPerms := sl.Has(func(v ssa.Value) bool {
			g, ok := v.(*ssa.Global)
			return ok && g.Pkg != nil && g.Pkg.Pkg.Path() == modPath+"/api/rpc/perms"
		})
		if usesPerms {
			n++
			res := gateWalk(p, va, map[*ssa.BasicBlock]bool{r.Block(): true}, boolFieldCut("authDisabled", true), nil)
			c.Ob("R19.2d", "verifyAuth return perms.*", !res.Reached, p.Pos(r.Pos()), "a fixed permission set is returned only when authDisabled", res.Witness...)
			continue
		}
		// otherwise must be the result of ExtractSignedPermissions(s.verifier, token)
		ok := false
		if ex, isEx := r.Results[0].(*ssa.Extract); isEx {
			if cl, isCall := ex.Tuple.(*ssa.Call); isCall {
				if o := calleeObj(&cl.Call); objIs(o, modPath+"/libs/authtoken", "", "ExtractSignedPermissions") {
					ok = len(cl.Call.Args) == 2 && cl.Call.Args[1] == va.Params[2]
					if ok {
						// first arg is s.verifier
						ld, isLd := cl.Call.Args[0].(*ssa.UnOp)
						ok = false
						if isLd {
							if fa, isFa := ld.X.(*ssa.FieldAddr); isFa && fieldOf(fa) != nil && fieldOf(fa).Name() == "verifier" && fa.X == va.Params[0] {
								ok = true
							}
						}
					}
				}
			}
		}
		c.Ob("R19.2d", "verifyAuth return token perms", ok, p.Pos(r.Pos()), "returns ExtractSignedPermissions(s.verifier, token) unchanged")
	}
	c.Floor("R19.2d", "verifyAuth perms.* returns", n, 1)
}

func c19Token(c *Check) {
	p := c.P
	fn := p.Func("libs/authtoken", "", "ExtractSignedPermissions")
	if fn == nil {
		c.Unresolved("R19.3a", "authtoken.ExtractSignedPermissions not found")
		return
	}
	c.SawFunc(fn)
	succ := successReturns(fn)
	c.Floor("R19.3a", "success returns of ExtractSignedPermissions", len(succ), 1)
	tg := map[*ssa.BasicBlock]bool{}
	for _, r := range succ {
		tg[r.Block()] = true
	}
	isJwtParse := func(cl *ssa.Call) bool {
		o := calleeObj(&cl.Call)
		return o != nil && o.Name() == "Parse" && strings.Contains(pkgPathOf(o), "cristalhq/jwt") && len(cl.Call.Args) == 2 && cl.Call.Args[1] == fn.Params[0]
	}
	// (i) jwt.Parse(token, verifier) success
	res := gateWalk(p, fn, tg, callGates(func(cl *ssa.Call, idx int) GateKind {
		if isJwtParse(cl) {
			return GateErr
		}
		return NotGate
	}), nil)
	c.Ob("R19.3a", "gate jwt.Parse(token, verifier)", !res.Reached, p.Pos(fn.Pos()), "success return only behind jwt.Parse(_, verifier) == nil error; the verifier argument is the function's verifier parameter", res.Witness...)
	// (ii) decoding claims success
	res = gateWalk(p, fn, tg, callGates(func(cl *ssa.Call, idx int) GateKind {
		if o := calleeObj(&cl.Call); o != nil && o.Name() == "Unmarshal" && pkgPathOf(o) == "encoding/json" {
			return GateErr
		}
		return NotGate
	}), nil)
	c.Ob("R19.3a", "gate json.Unmarshal(claims)", !res.Reached, p.Pos(fn.Pos()), "success return only behind successful claims decoding", res.Witness...)
	// (iii) expiry: a call ExpiresAt.Before(now) [or now.After(ExpiresAt)] whose true edge reaches no success return,
	// and every success path crosses a branch depending on ExpiresAt
	expiryIfs := 0
	for _, b := range fn.Blocks {
		ifi, ok := b.Instrs[len(b.Instrs)-1].(*ssa.If)
		if !ok {
			continue
		}
		a := stripNot(ifi.Cond)
		cl, ok := a.Base.(*ssa.Call)
		if !ok {
			continue
		}
		o := calleeObj(&cl.Call)
		if o == nil || pkgPathOf(o) != "time" || (o.Name() != "Before" && o.Name() != "After") || len(cl.Call.Args) != 2 {
			continue
		}
		recvSl := backSlice(cl.Call.Args[0], SliceOpt{CallArgs: true})
		argSl := backSlice(cl.Call.Args[1], SliceOpt{CallArgs: true})
		isNow := func(s *Slice) bool {
			return s.HasCallTo(func(f *types.Func) bool { return pkgPathOf(f) == "time" && f.Name() == "Now" })
		}
		isExp := func(s *Slice) bool { return s.HasFieldNamed("JWTPayload", "ExpiresAt") }
		var expiredWhenTrue bool
		switch {
		case o.Name() == "Before" && isExp(recvSl) && isNow(argSl):
			expiredWhenTrue = true
		case o.Name() == "After" && isNow(recvSl) && isExp(argSl):
			expiredWhenTrue = true
		case o.Name() == "After" && isExp(recvSl) && isNow(argSl), o.Name() == "Before" && isNow(recvSl) && isExp(argSl):
			expiredWhenTrue = false
		default:
			continue
		}
		expiryIfs++
		expiredSucc := b.Succs[0]
		if expiredWhenTrue == a.Neg {
			expiredSucc = b.Succs[1]
		}
		r := gateWalkOpts(p, fn, tg, nil, expiredSucc, nil)
		c.Ob("R19.3a", "expired side rejects", !r.Reached, p.Pos(ifi.Pos()), "from the 'expired' edge of the ExpiresAt/time.Now comparison no success return is reachable", r.Witness...)
	}
	c.Ob("R19.3a", "expiry comparison present", expiryIfs >= 1, p.Pos(fn.Pos()), fmt.Sprintf("%d branch(es) compare JWTPayload.ExpiresAt with time.Now", expiryIfs))
	// returned permissions are the decoded payload's Allow
	for _, r := range succ {
		sl := backSlice(r.Results[0], SliceOpt{CallArgs: true})
		c.Ob("R19.3a", "returns payload.Allow", sl.HasFieldNamed("JWTPayload", "Allow") && sl.Has(func(v ssa.Value) bool {
			cl, ok := v.(*ssa.Call)
			return ok && isJwtParse(cl)
		}), p.Pos(r.Pos()), "the permissions returned are the Allow field decoded from the verified token's claims")
		pooled := sl.HasCallTo(func(o *types.Func) bool {
			return pkgPathOf(o) == "sync" && o.Name() == "Get" && recvNamed(o) != nil && recvNamed(o).Obj().Name() == "Pool"
		})
		global := sl.Has(func(v ssa.Value) bool {
			g, ok := v.(*ssa.Global)
			return ok && g.Pkg != nil && g.Pkg.Pkg.Path() == modPath+"/libs/authtoken"
		})
		c.Ob("R19.3a", "returned permissions are freshly allocated", !pooled && !global, p.Pos(r.Pos()),
			"the returned permission slice does not alias pooled or package-level storage that a later verification could overwrite (the RPC server keeps it in the connection context)")
	}
	// R19.3b
	noVerify := p.allCallSites(func(o *types.Func) bool {
		return strings.Contains(pkgPathOf(o), "cristalhq/jwt") && o.Name() == "ParseNoVerify"
	})
	live := p.allCallSites(func(o *types.Func) bool {
		return strings.Contains(pkgPathOf(o), "cristalhq/jwt") && o.Name() == "Parse"
	})
	c.Floor("R19.3b", "jwt.Parse call sites (matcher liveness)", len(live), 1)
	for _, s := range noVerify {
		c.Ob("R19.3b", "ParseNoVerify@"+fnName(s.Parent()), false, p.Pos(s.Pos()), "token parsed without signature verification")
	}
	c.Ob("R19.3b", "no ParseNoVerify", len(noVerify) == 0, "-", fmt.Sprintf("%d ParseNoVerify call sites; %d jwt.Parse call sites seen by the same matcher", len(noVerify), len(live)))
}

// ---- R19.4 ----

type sinkClass struct {
	name string
	min  string
	why  string
}

var (
	sinkTx    = sinkClass{"tx-submission", "write", "signs and broadcasts a transaction with the node's key (moves funds / submits data)"}
	sinkCred  = sinkClass{"credentials", "admin", "mints or verifies API tokens"}
	sinkP2P   = sinkClass{"p2p-identity/peers/reconfig", "admin", "reveals host identity, peers or bandwidth, or reconfigures connections"}
	sinkLog   = sinkClass{"log-reconfig", "admin", "reconfigures the node's logging"}
	sinkKeyrg = sinkClass{"keyring", "write", "uses the node's signing keyring"}
)

func c19SinkOf(o *types.Func, site ssa.CallInstruction) *sinkClass {
	if o == nil {
		return nil
	}
	pp := pkgPathOf(o)
	rn := ""
	if r := recvNamed(o); r != nil {
		rn = r.Obj().Name()
	}
	switch {
	case pp == modPath+"/state" && rn == "TxClient":
		return &sinkTx
	case strings.HasSuffix(pp, "celestia-app/v9/pkg/user") && rn == "TxClient" && (strings.HasPrefix(o.Name(), "Submit") || strings.HasPrefix(o.Name(), "Broadcast")):
		return &sinkTx
	case pp == modPath+"/libs/authtoken" && (o.Name() == "NewSignedJWT" || o.Name() == "ExtractSignedPermissions"):
		return &sinkCred
	case pp == modPath+"/api/rpc/perms" && strings.HasPrefix(o.Name(), "NewToken"):
		return &sinkCred
	case strings.Contains(pp, "go-log") && strings.HasPrefix(o.Name(), "SetLogLevel"):
		return &sinkLog
	}
	return nil
}

func c19Policy(c *Check, mods []*rpcModule) {
	p := c.P
	nRows := 0
	for _, m := range mods {
		it := m.iface.Underlying().(*types.Interface)
		impls := p.Implementers(it)
		var concrete []*types.Named
		for _, n := range impls {
			if n == m.api {
				continue
			}
			concrete = append(concrete, n)
		}
		if len(concrete) == 0 {
			c.Unresolved("R19.4", "no first-party implementation of "+m.iface.String())
			continue
		}
		for i := 0; i < it.NumMethods(); i++ {
			meth := it.Method(i)
			tag := m.tags[meth.Name()]
			var starts []*ssa.Function
			for _, n := range concrete {
				if f := p.Method(n, meth.Name()); f != nil {
					starts = append(starts, f)
					c.SawFunc(f)
				}
			}
			type hit struct {
				cls  *sinkClass
				path []string
				pos  token.Pos
			}
			var hits []hit
			seenCls := map[string]bool{}
			implPkgs := map[string]bool{}
			for _, s := range starts {
				if s.Pkg != nil {
					implPkgs[s.Pkg.Pkg.Path()] = true
				}
			}
			p.Reach(starts, ReachOpt{SkipFn: func(f *ssa.Function) bool {
				// do not walk into the API proxy structs themselves or test support
				r := rootFunc(f)
				if r.Signature.Recv() != nil {
					if n := derefNamed(r.Signature.Recv().Type()); n != nil && n.Obj().Name() == "API" {
						return true
					}
				}
				return r.Pkg != nil && isTestSupportPkg(r.Pkg.Pkg.Path())
			}}, func(n *reachNode, site ssa.CallInstruction) {
				c.callSites++
				o := calleeObj(site.Common())
				cls := c19SinkOf(o, site)
				if cls == nil && o != nil {
					// libp2p effects: only when called from the module implementation's own package
					r := rootFunc(n.fn)
					if r.Pkg != nil && implPkgs[r.Pkg.Pkg.Path()] && strings.HasSuffix(r.Pkg.Pkg.Path(), "nodebuilder/p2p") {
						if hasPrefixAny(pkgPathOf(o), "github.com/libp2p/go-libp2p") {
							cls = &sinkP2P
						}
					}
				}
				if cls == nil || seenCls[cls.name] {
					return
				}
				seenCls[cls.name] = true
				path := append(p.pathTo(n), "  -> "+o.FullName()+" at "+p.Pos(site.Pos()))
				hits = append(hits, hit{cls, path, site.Pos()})
			})
			nRows++
			need := "public"
			var worst *hit
			for i := range hits {
				if permRank[hits[i].cls.min] > permRank[need] {
					need = hits[i].cls.min
					worst = &hits[i]
				}
			}
			var names []string
			for _, h := range hits {
				names = append(names, h.cls.name)
			}
			sort.Strings(names)
			detail := fmt.Sprintf("tag=%s reachable-sinks=%v required>=%s", tag, names, need)
			ok := permRank[tag] >= permRank[need]
			var path []string
			pos := p.Pos(meth.Pos())
			if !ok && worst != nil {
				path = worst.path
				detail += " (" + worst.cls.why + ")"
			}
			c.Ob("R19.4", m.ns+"."+meth.Name(), ok, pos, detail, path...)
		}
	}
	c.Floor("R19.4", "method x sink rows", nRows, 72)
}
