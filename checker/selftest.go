package main

// Both-ways self-test: see mutants.go (filled in later).
func runSelfTests(prop, repo, verif string) int { return runMutants(prop, repo, verif) }
