package main

// E0 - program loading and shared IR: type-checked syntax for every first-party
// package of the module rooted at -repo, SSA for those packages, and the call
// graph policy described in DESIGN.md (VTA, falling back to CHA where VTA has no
// callee, e.g. at fx-injected interface fields).

import (
	"fmt"
	"go/ast"
	"go/token"
	"go/types"
	"os"
	"sort"
	"strings"
	"time"

	"golang.org/x/tools/go/callgraph"
	"golang.org/x/tools/go/callgraph/cha"
	"golang.org/x/tools/go/callgraph/vta"
	"golang.org/x/tools/go/packages"
	"golang.org/x/tools/go/ssa"
	"golang.org/x/tools/go/ssa/ssautil"
)

const modPath = "github.com/celestiaorg/celestia-node"

type Program struct {
	Repo     string
	Fset     *token.FileSet
	Pkgs     []*packages.Package // first-party packages
	ByPath   map[string]*packages.Package
	SSA      *ssa.Program
	SSAPkgs  map[string]*ssa.Package
	AllFuncs map[*ssa.Function]bool // every function with or without body known to the program
	SrcFuncs []*ssa.Function        // first-party functions with bodies (incl. closures)
	chaG     *callgraph.Graph
	vtaG     *callgraph.Graph
	LoadS    float64
	// fileOf caches ast.File by filename
	declOf map[*types.Func]*ast.FuncDecl
}

func loadProgram(repo string, overlay map[string][]byte, tests bool) (*Program, error) {
	t0 := time.Now()
	os.Unsetenv("GOWORK")
	cfg := &packages.Config{
		Mode:    packages.LoadSyntax,
		Dir:     repo,
		Tests:   tests,
		Overlay: overlay,
		Env:     append(os.Environ(), "GOFLAGS=-mod=mod", "GOPROXY=off", "GOWORK=off"),
	}
	pkgs, err := packages.Load(cfg, "./...")
	if err != nil {
		return nil, err
	}
	if len(pkgs) == 0 {
		return nil, fmt.Errorf("no packages loaded from %s", repo)
	}
	p := &Program{Repo: repo, ByPath: map[string]*packages.Package{}, SSAPkgs: map[string]*ssa.Package{}, declOf: map[*types.Func]*ast.FuncDecl{}}
	nerr := 0
	for _, pk := range pkgs {
		for _, e := range pk.Errors {
			fmt.Fprintf(os.Stderr, "LOAD-ERROR %s: %v\n", pk.PkgPath, e)
			nerr++
		}
	}
	if nerr > 0 {
		return nil, fmt.Errorf("%d load/type errors: the tree does not type-check", nerr)
	}
	p.Fset = pkgs[0].Fset
	prog, spkgs := ssautil.Packages(pkgs, ssa.InstantiateGenerics)
	p.SSA = prog
	for i, pk := range pkgs {
		if !strings.HasPrefix(pk.PkgPath, modPath) {
			continue
		}
		// with Tests:true a package appears several times; prefer the non-test variant for ByPath
		if old, ok := p.ByPath[pk.PkgPath]; !ok || len(old.Syntax) < len(pk.Syntax) && !tests {
			p.ByPath[pk.PkgPath] = pk
			if spkgs[i] != nil {
				p.SSAPkgs[pk.PkgPath] = spkgs[i]
			}
		}
		p.Pkgs = append(p.Pkgs, pk)
	}
	prog.Build()
	p.AllFuncs = ssautil.AllFunctions(prog)
	for f := range p.AllFuncs {
		if f.Blocks != nil && f.Pkg != nil && strings.HasPrefix(f.Pkg.Pkg.Path(), modPath) && f.Synthetic == "" {
			p.SrcFuncs = append(p.SrcFuncs, f)
		} else if f.Blocks != nil && f.Parent() != nil {
			p.SrcFuncs = append(p.SrcFuncs, f)
		}
	}
	sort.Slice(p.SrcFuncs, func(i, j int) bool { return p.SrcFuncs[i].String() < p.SrcFuncs[j].String() })
	for _, f := range p.SrcFuncs {
		unspillReturns(f)
	}
	for _, pk := range p.Pkgs {
		for _, f := range pk.Syntax {
			for _, d := range f.Decls {
				if fd, ok := d.(*ast.FuncDecl); ok {
					if obj, ok := pk.TypesInfo.Defs[fd.Name].(*types.Func); ok {
						p.declOf[obj] = fd
					}
				}
			}
		}
	}
	p.LoadS = time.Since(t0).Seconds()
	return p, nil
}

// unspillReturns undoes go/ssa's "defer-spilled returns": in a function with
// defers `return a, b` is lowered to stores into result locals, rundefers, loads
// and a return of the loads. The rules look at what is returned, so each such
// load is replaced (in the Return's operand list only) by the value stored into
// the result local in the same block before rundefers - unless a deferred closure
// may overwrite named results, in which case the loads are left alone.
func unspillReturns(f *ssa.Function) {
	if f.Recover == nil {
		return
	}
	for _, b := range f.Blocks {
		if b == f.Recover || len(b.Instrs) == 0 {
			continue
		}
		r, ok := b.Instrs[len(b.Instrs)-1].(*ssa.Return)
		if !ok {
			continue
		}
		for i, v := range r.Results {
			ld, ok := v.(*ssa.UnOp)
			if !ok || ld.Op != token.MUL {
				continue
			}
			al, ok := ld.X.(*ssa.Alloc)
			if !ok {
				continue
			}
			// a deferred closure capturing the result local may change it
			captured := false
			if refs := al.Referrers(); refs != nil {
				for _, ref := range *refs {
					if _, isMC := ref.(*ssa.MakeClosure); isMC {
						captured = true
					}
				}
			}
			if captured {
				continue
			}
			var last ssa.Value
			for _, ins := range b.Instrs {
				if st, ok := ins.(*ssa.Store); ok && st.Addr == ssa.Value(al) {
					last = st.Val
				}
			}
			if last != nil {
				r.Results[i] = last
			}
		}
	}
}

func (p *Program) CHA() *callgraph.Graph {
	if p.chaG == nil {
		p.chaG = cha.CallGraph(p.SSA)
	}
	return p.chaG
}

func (p *Program) VTA() *callgraph.Graph {
	if p.vtaG == nil {
		p.vtaG = vta.CallGraph(p.AllFuncs, p.CHA())
	}
	return p.vtaG
}

// Callees implements the call-graph policy: VTA if it resolves the site, else CHA.
func (p *Program) Callees(site ssa.CallInstruction) []*ssa.Function {
	if f := site.Common().StaticCallee(); f != nil {
		return []*ssa.Function{f}
	}
	fn := site.Parent()
	var out []*ssa.Function
	seen := map[*ssa.Function]bool{}
	collect := func(g *callgraph.Graph) {
		n := g.Nodes[fn]
		if n == nil {
			return
		}
		for _, e := range n.Out {
			if e.Site == site && !seen[e.Callee.Func] {
				seen[e.Callee.Func] = true
				out = append(out, e.Callee.Func)
			}
		}
	}
	collect(p.VTA())
	if len(out) == 0 && site.Common().IsInvoke() {
		collect(p.CHA())
	}
	// bound-method closures and thunks are synthetic wrappers around one call
	for i, f := range out {
		out[i] = unwrapSynthetic(f)
	}
	sort.Slice(out, func(i, j int) bool { return out[i].String() < out[j].String() })
	return out
}

func unwrapSynthetic(f *ssa.Function) *ssa.Function {
	for depth := 0; depth < 3 && f != nil && f.Synthetic != "" && f.Blocks != nil; depth++ {
		var inner *ssa.Function
		n := 0
		for _, b := range f.Blocks {
			for _, ins := range b.Instrs {
				if c, ok := ins.(ssa.CallInstruction); ok {
					if g := c.Common().StaticCallee(); g != nil {
						inner = g
						n++
					}
				}
			}
		}
		if n != 1 {
			return f
		}
		f = inner
	}
	return f
}

// Pkg returns the first-party package with the given path relative to the module
// ("" = root); it fails the run if absent.
func (p *Program) Pkg(rel string) *packages.Package {
	path := modPath
	if rel != "" {
		path += "/" + rel
	}
	return p.ByPath[path]
}

func (p *Program) SSAPkg(rel string) *ssa.Package {
	path := modPath
	if rel != "" {
		path += "/" + rel
	}
	return p.SSAPkgs[path]
}

// Func finds a package-level function or a method "T.M" / "(*T).M" is not needed:
// recv "" means package function; otherwise the named type, pointer-ness ignored.
func (p *Program) Func(rel, recv, name string) *ssa.Function {
	sp := p.SSAPkg(rel)
	if sp == nil {
		return nil
	}
	if recv == "" {
		return sp.Func(name)
	}
	tn, ok := sp.Pkg.Scope().Lookup(recv).(*types.TypeName)
	if !ok {
		return nil
	}
	for _, t := range []types.Type{tn.Type(), types.NewPointer(tn.Type())} {
		ms := p.SSA.MethodSets.MethodSet(t)
		for i := 0; i < ms.Len(); i++ {
			sel := ms.At(i)
			if sel.Obj().Name() == name {
				// only methods declared directly on the type (not promoted)
				if len(sel.Index()) == 1 {
					return p.SSA.MethodValue(sel)
				}
			}
		}
	}
	return nil
}

// PromotedOrDeclared looks a method up including promoted ones.
func (p *Program) Method(t types.Type, name string) *ssa.Function {
	for _, tt := range []types.Type{t, types.NewPointer(t)} {
		ms := p.SSA.MethodSets.MethodSet(tt)
		for i := 0; i < ms.Len(); i++ {
			if ms.At(i).Obj().Name() == name {
				return p.SSA.MethodValue(ms.At(i))
			}
		}
	}
	return nil
}

func (p *Program) Named(rel, name string) *types.Named {
	pk := p.Pkg(rel)
	if pk == nil {
		return nil
	}
	tn, ok := pk.Types.Scope().Lookup(name).(*types.TypeName)
	if !ok {
		return nil
	}
	n, _ := tn.Type().(*types.Named)
	return n
}

// DepFunc resolves a function or method of a dependency package by path; used only
// for the frozen summary table of dependency APIs (DESIGN E0).
func (p *Program) DepObj(pkgPath, recv, name string) *types.Func {
	var tp *types.Package
	for _, pk := range p.Pkgs {
		if pk.Types.Path() == pkgPath {
			tp = pk.Types
			break
		}
		var find func(*types.Package, map[*types.Package]bool) *types.Package
		find = func(x *types.Package, seen map[*types.Package]bool) *types.Package {
			for _, imp := range x.Imports() {
				if imp.Path() == pkgPath {
					return imp
				}
			}
			return nil
		}
		if r := find(pk.Types, nil); r != nil {
			tp = r
			break
		}
	}
	if tp == nil {
		return nil
	}
	if recv == "" {
		f, _ := tp.Scope().Lookup(name).(*types.Func)
		return f
	}
	tn, ok := tp.Scope().Lookup(recv).(*types.TypeName)
	if !ok {
		return nil
	}
	obj, _, _ := types.LookupFieldOrMethod(types.NewPointer(tn.Type()), true, tp, name)
	f, _ := obj.(*types.Func)
	return f
}

func (p *Program) Pos(pos token.Pos) string {
	if !pos.IsValid() {
		return "-"
	}
	ps := p.Fset.Position(pos)
	f := strings.TrimPrefix(ps.Filename, p.Repo+"/")
	return fmt.Sprintf("%s:%d", f, ps.Line)
}

func (p *Program) IsTestPos(pos token.Pos) bool {
	if !pos.IsValid() {
		return false
	}
	return strings.HasSuffix(p.Fset.Position(pos).Filename, "_test.go")
}

// Implementers returns first-party named types (T or *T) whose method set
// satisfies iface, excluding types declared in _test.go files and in packages
// whose path ends in "test" or contains "/mocks".
func (p *Program) Implementers(iface *types.Interface) []*types.Named {
	var out []*types.Named
	for _, pk := range p.Pkgs {
		if isTestSupportPkg(pk.PkgPath) {
			continue
		}
		sc := pk.Types.Scope()
		for _, n := range sc.Names() {
			tn, ok := sc.Lookup(n).(*types.TypeName)
			if !ok || tn.IsAlias() {
				continue
			}
			nt, ok := tn.Type().(*types.Named)
			if !ok || nt.TypeParams().Len() > 0 {
				continue
			}
			if _, isI := nt.Underlying().(*types.Interface); isI {
				continue
			}
			if p.IsTestPos(tn.Pos()) {
				continue
			}
			if types.Implements(nt, iface) || types.Implements(types.NewPointer(nt), iface) {
				out = append(out, nt)
			}
		}
	}
	sort.Slice(out, func(i, j int) bool { return out[i].String() < out[j].String() })
	return out
}

func isTestSupportPkg(path string) bool {
	return strings.HasSuffix(path, "test") || strings.Contains(path, "/mocks") || strings.HasSuffix(path, "/testing") ||
		strings.Contains(path, "/tests") || strings.HasSuffix(path, "testutil") || strings.HasSuffix(path, "/swamp")
}

// FuncsOf returns all source functions (incl. nested closures) whose outermost
// parent is declared in package rel.
func (p *Program) FuncsOfPkg(rel string) []*ssa.Function {
	path := modPath
	if rel != "" {
		path += "/" + rel
	}
	var out []*ssa.Function
	for _, f := range p.SrcFuncs {
		r := f
		for r.Parent() != nil {
			r = r.Parent()
		}
		if r.Pkg != nil && r.Pkg.Pkg.Path() == path && !p.IsTestPos(r.Pos()) {
			out = append(out, f)
		}
	}
	return out
}

func rootFunc(f *ssa.Function) *ssa.Function {
	for f.Parent() != nil {
		f = f.Parent()
	}
	return f
}

func (p *Program) FirstParty(f *ssa.Function) bool {
	r := rootFunc(f)
	if r.Pkg == nil {
		// instantiated generics / wrappers: use object package
		if r.Object() != nil && r.Object().Pkg() != nil {
			return strings.HasPrefix(r.Object().Pkg().Path(), modPath)
		}
		return false
	}
	return strings.HasPrefix(r.Pkg.Pkg.Path(), modPath)
}

// Closures returns the anonymous functions nested (transitively) in f.
func Closures(f *ssa.Function) []*ssa.Function {
	var out []*ssa.Function
	for _, a := range f.AnonFuncs {
		out = append(out, a)
		out = append(out, Closures(a)...)
	}
	return out
}

// fnName prints a stable, line-free name for a function (closures get $n suffixes
// from go/ssa, which are stable under edits that do not add/remove closures).
func fnName(f *ssa.Function) string {
	if f == nil {
		return "<nil>"
	}
	s := f.String()
	s = strings.ReplaceAll(s, modPath+"/", "")
	s = strings.ReplaceAll(s, modPath, ".")
	return s
}

func calleeObj(c *ssa.CallCommon) *types.Func {
	if c.IsInvoke() {
		return c.Method
	}
	if f := c.StaticCallee(); f != nil {
		if o, ok := f.Object().(*types.Func); ok {
			return o
		}
		// bound method closure or instantiated generic
		if f.Origin() != nil {
			if o, ok := f.Origin().Object().(*types.Func); ok {
				return o
			}
		}
	}
	return nil
}

// objIs reports whether fn is the function/method pkgPath.[recv.]name
func objIs(fn *types.Func, pkgPath, recv, name string) bool {
	if fn == nil || fn.Name() != name || fn.Pkg() == nil || fn.Pkg().Path() != pkgPath {
		return false
	}
	sig := fn.Type().(*types.Signature)
	if recv == "" {
		return sig.Recv() == nil
	}
	if sig.Recv() == nil {
		return false
	}
	t := sig.Recv().Type()
	if pt, ok := t.(*types.Pointer); ok {
		t = pt.Elem()
	}
	if n, ok := t.(*types.Named); ok {
		return n.Obj().Name() == recv
	}
	return false
}

func recvNamed(fn *types.Func) *types.Named {
	sig, ok := fn.Type().(*types.Signature)
	if !ok || sig.Recv() == nil {
		return nil
	}
	t := sig.Recv().Type()
	if pt, ok := t.(*types.Pointer); ok {
		t = pt.Elem()
	}
	n, _ := t.(*types.Named)
	return n
}

func derefNamed(t types.Type) *types.Named {
	if pt, ok := t.(*types.Pointer); ok {
		t = pt.Elem()
	}
	n, _ := types.Unalias(t).(*types.Named)
	return n
}

func namedIs(t types.Type, pkgPath, name string) bool {
	n := derefNamed(t)
	return n != nil && n.Obj().Name() == name && n.Obj().Pkg() != nil && n.Obj().Pkg().Path() == pkgPath
}
