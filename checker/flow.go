package main

// E2 - FLOW: backward data-dependence slices over SSA values. A slice is the set
// of SSA values a value may depend on through operands, phis, address arithmetic,
// loads of locals (through the stores into them) and, optionally, closure
// bindings and callee results. Rules then ask which roots (parameters, fields of
// parameters, globals, calls) occur in the slice.

import (
	"go/token"
	"go/types"

	"golang.org/x/tools/go/ssa"
)

type SliceOpt struct {
	// ThroughFreeVars continues from a closure's FreeVar into the value bound at
	// the MakeClosure site in the parent.
	ThroughFreeVars bool
	// CallArgs: the result of a call depends on its arguments and receiver.
	CallArgs bool
	// NoAddrCallArgs: do not treat "address of a local passed to a call" as making
	// the local depend on the call's other arguments.
	NoAddrCallArgs bool
	// PhiControl: a phi additionally depends on the branch conditions that select
	// between its incoming edges (control dependence of short-circuit && / ||).
	PhiControl bool
	// IntoCallees: additionally descend into static first-party callees' returned
	// values (depth-limited).
	CalleeDepth int
	P           *Program
}

type Slice struct {
	Vals map[ssa.Value]bool
}

func backSlice(v ssa.Value, opt SliceOpt) *Slice {
	s := &Slice{Vals: map[ssa.Value]bool{}}
	s.visit(v, opt, opt.CalleeDepth)
	return s
}

func backSliceAll(vs []ssa.Value, opt SliceOpt) *Slice {
	s := &Slice{Vals: map[ssa.Value]bool{}}
	for _, v := range vs {
		s.visit(v, opt, opt.CalleeDepth)
	}
	return s
}

func (s *Slice) visit(v ssa.Value, opt SliceOpt, depth int) {
	if v == nil || s.Vals[v] {
		return
	}
	s.Vals[v] = true
	switch x := v.(type) {
	case *ssa.Phi:
		for _, e := range x.Edges {
			s.visit(e, opt, depth)
		}
		if opt.PhiControl {
			// control dependence of a merge (e.g. the phi of `a && b`): the branch
			// conditions between the merge block's dominator and its predecessors
			b := x.Block()
			stop := b.Idom()
			for _, pr := range b.Preds {
				for d := pr; d != nil; d = d.Idom() {
					if ifi, ok := d.Instrs[len(d.Instrs)-1].(*ssa.If); ok {
						s.visit(ifi.Cond, opt, depth)
					}
					if d == stop {
						break
					}
				}
			}
		}
	case *ssa.UnOp:
		s.visit(x.X, opt, depth)
	case *ssa.BinOp:
		s.visit(x.X, opt, depth)
		s.visit(x.Y, opt, depth)
	case *ssa.Field:
		s.visit(x.X, opt, depth)
	case *ssa.FieldAddr:
		s.visit(x.X, opt, depth)
	case *ssa.Index:
		s.visit(x.X, opt, depth)
		s.visit(x.Index, opt, depth)
	case *ssa.IndexAddr:
		s.visit(x.X, opt, depth)
		s.visit(x.Index, opt, depth)
	case *ssa.Lookup:
		s.visit(x.X, opt, depth)
		s.visit(x.Index, opt, depth)
	case *ssa.Slice:
		s.visit(x.X, opt, depth)
		s.visit(x.Low, opt, depth)
		s.visit(x.High, opt, depth)
		s.visit(x.Max, opt, depth)
	case *ssa.Convert:
		s.visit(x.X, opt, depth)
	case *ssa.ChangeType:
		s.visit(x.X, opt, depth)
	case *ssa.ChangeInterface:
		s.visit(x.X, opt, depth)
	case *ssa.MakeInterface:
		s.visit(x.X, opt, depth)
	case *ssa.SliceToArrayPointer:
		s.visit(x.X, opt, depth)
	case *ssa.TypeAssert:
		s.visit(x.X, opt, depth)
		if _, isPtr := x.Type().Underlying().(*types.Pointer); isPtr {
			// a pointer obtained from elsewhere (pool, interface): what is written
			// through it in this function also determines the pointee
			s.allocStores(x, opt, depth, map[ssa.Value]bool{})
		}
	case *ssa.Extract:
		s.visit(x.Tuple, opt, depth)
	case *ssa.Range:
		s.visit(x.X, opt, depth)
	case *ssa.Next:
		s.visit(x.Iter, opt, depth)
	case *ssa.MakeClosure:
		for _, b := range x.Bindings {
			s.visit(b, opt, depth)
		}
	case *ssa.MakeSlice:
		s.visit(x.Len, opt, depth)
		s.allocStores(x, opt, depth, map[ssa.Value]bool{})
	case *ssa.Alloc:
		// everything stored into the local, its fields or elements
		s.allocStores(x, opt, depth, map[ssa.Value]bool{})
	case *ssa.Call:
		if opt.CallArgs {
			for _, a := range x.Call.Args {
				s.visit(a, opt, depth)
			}
			if x.Call.IsInvoke() {
				s.visit(x.Call.Value, opt, depth)
			} else if _, isFn := x.Call.Value.(*ssa.Function); !isFn {
				s.visit(x.Call.Value, opt, depth)
			}
		}
		if depth > 0 && opt.P != nil {
			if f := x.Call.StaticCallee(); f != nil && f.Blocks != nil && opt.P.FirstParty(f) {
				for _, r := range returnsOf(f) {
					for _, rv := range r.Results {
						s.visit(rv, opt, depth-1)
					}
				}
			}
		}
	case *ssa.FreeVar:
		if opt.ThroughFreeVars {
			fn := x.Parent()
			idx := -1
			for i, fv := range fn.FreeVars {
				if fv == x {
					idx = i
				}
			}
			if par := fn.Parent(); par != nil && idx >= 0 {
				for _, mc := range makeClosuresOf(par, fn) {
					if idx < len(mc.Bindings) {
						s.visit(mc.Bindings[idx], opt, depth)
					}
				}
			}
		}
	}
}

func (s *Slice) allocStores(a ssa.Value, opt SliceOpt, depth int, seen map[ssa.Value]bool) {
	if seen[a] {
		return
	}
	seen[a] = true
	refs := a.Referrers()
	if refs == nil {
		return
	}
	for _, r := range *refs {
		switch y := r.(type) {
		case *ssa.Store:
			if y.Addr == a {
				s.visit(y.Val, opt, depth)
			}
		case *ssa.FieldAddr:
			if y.X == a {
				s.allocStores(y, opt, depth, seen)
			}
		case *ssa.IndexAddr:
			if y.X == a {
				s.allocStores(y, opt, depth, seen)
			}
		case *ssa.MakeInterface:
			s.allocStores(y, opt, depth, seen)
		case *ssa.ChangeType:
			s.allocStores(y, opt, depth, seen)
		case *ssa.Call:
			// the local's address is passed to a callee (decoder idiom): the
			// local then depends on the call's other arguments
			if opt.CallArgs && !opt.NoAddrCallArgs {
				s.Vals[y] = true
				for _, arg := range y.Call.Args {
					if arg != a {
						s.visit(arg, opt, depth)
					}
				}
			}
		case *ssa.MakeClosure:
			// captured by reference: stores inside the closure
			for i, b := range y.Bindings {
				if b == a {
					if cf, ok := y.Fn.(*ssa.Function); ok && i < len(cf.FreeVars) {
						s.allocStores(cf.FreeVars[i], opt, depth, seen)
					}
				}
			}
		}
	}
}

func makeClosuresOf(parent, child *ssa.Function) []*ssa.MakeClosure {
	var out []*ssa.MakeClosure
	for _, b := range parent.Blocks {
		for _, ins := range b.Instrs {
			if mc, ok := ins.(*ssa.MakeClosure); ok && mc.Fn == child {
				out = append(out, mc)
			}
		}
	}
	return out
}

func (s *Slice) HasParam(fn *ssa.Function, name string) bool {
	for v := range s.Vals {
		if p, ok := v.(*ssa.Parameter); ok && p.Name() == name && (fn == nil || p.Parent() == fn) {
			return true
		}
	}
	return false
}

func (s *Slice) HasParamIdx(fn *ssa.Function, idx int) bool {
	if idx < 0 || idx >= len(fn.Params) {
		return false
	}
	return s.Vals[fn.Params[idx]]
}

func (s *Slice) Has(pred func(ssa.Value) bool) bool {
	for v := range s.Vals {
		if pred(v) {
			return true
		}
	}
	return false
}

// HasFieldNamed: some Field/FieldAddr selecting a struct field with this name on
// a struct type named typeName (any package) is in the slice.
func (s *Slice) HasFieldNamed(typeName, field string) bool {
	return s.Has(func(v ssa.Value) bool {
		var f *types.Var
		var owner types.Type
		switch x := v.(type) {
		case *ssa.FieldAddr:
			f = fieldOf(x)
			owner = x.X.Type()
		case *ssa.Field:
			f = fieldOfVal(x)
			owner = x.X.Type()
		default:
			return false
		}
		if f == nil || f.Name() != field {
			return false
		}
		if typeName == "" {
			return true
		}
		n := derefNamed(owner)
		return n != nil && n.Obj().Name() == typeName
	})
}

// HasCallTo: a call to the given function object is in the slice.
func (s *Slice) HasCallTo(pred func(*types.Func) bool) bool {
	return s.Has(func(v ssa.Value) bool {
		c, ok := v.(*ssa.Call)
		if !ok {
			return false
		}
		o := calleeObj(&c.Call)
		return o != nil && pred(o)
	})
}

// nonNilAt reports whether error value v is known non-nil in block b because b is
// dominated by the non-nil successor of a test `v != nil` / `v == nil`.
func nonNilAt(v ssa.Value, b *ssa.BasicBlock) bool {
	for d := b; d != nil; d = d.Idom() {
		id := d.Idom()
		if id == nil {
			break
		}
		ifi, ok := id.Instrs[len(id.Instrs)-1].(*ssa.If)
		if !ok {
			continue
		}
		x, eq, ok := nilTest(ifi.Cond)
		if !ok || !sameValue(x, v) {
			continue
		}
		nn := id.Succs[0]
		if eq {
			nn = id.Succs[1]
		}
		if nn == id.Succs[0] && nn == id.Succs[1] {
			continue
		}
		if len(nn.Preds) == 1 && nn.Dominates(b) {
			return true
		}
	}
	return false
}

func sameValue(a, b ssa.Value) bool {
	if a == b {
		return true
	}
	// two loads of the same local with no intervening store are not identified here
	ua, ok1 := a.(*ssa.UnOp)
	ub, ok2 := b.(*ssa.UnOp)
	if ok1 && ok2 && ua.Op == token.MUL && ub.Op == token.MUL && ua.X == ub.X {
		if _, isAlloc := ua.X.(*ssa.Alloc); isAlloc {
			return ua.Block() == ub.Block() || true
		}
	}
	return false
}

// successReturns returns the Return instructions of fn whose error result may be
// nil (success exits). Functions without an error result: all returns.
func successReturns(fn *ssa.Function) []*ssa.Return {
	ei := errResultIndex(fn)
	var out []*ssa.Return
	for _, r := range returnsOf(fn) {
		if ei < 0 {
			out = append(out, r)
			continue
		}
		cls, v := classifyReturn(r, ei)
		switch cls {
		case retErr:
			continue
		case retDelegate, retUnknown:
			if v != nil && nonNilAt(v, r.Block()) {
				continue
			}
		}
		out = append(out, r)
	}
	return out
}
