package main

import (
	"go/types"
	"strings"

	"golang.org/x/tools/go/ssa"
)

// droppedErrors lists the calls in fn whose error result is discarded: a deferred
// or go'd call of a function returning an error, or a call whose error result has
// no use. The rule instances are confirmed by reading and frozen in the caller's
// exemption table (callee name -> reason).
type droppedErr struct {
	ins    ssa.Instruction
	callee string
	how    string
}

func droppedErrors(fn *ssa.Function) []droppedErr {
	var out []droppedErr
	for _, b := range fn.Blocks {
		for _, ins := range b.Instrs {
			ci, ok := ins.(ssa.CallInstruction)
			if !ok {
				continue
			}
			sig := ci.Common().Signature()
			n := sig.Results().Len()
			if n == 0 || !isErrorType(sig.Results().At(n-1).Type()) {
				continue
			}
			name := calleeNameCI(ci)
			if o := calleeObj(ci.Common()); o != nil {
				name = o.FullName()
			}
			switch x := ins.(type) {
			case *ssa.Defer:
				out = append(out, droppedErr{ins, name, "deferred: result discarded"})
			case *ssa.Go:
				out = append(out, droppedErr{ins, name, "go statement: result discarded"})
			case *ssa.Call:
				refs := x.Referrers()
				used := false
				if refs != nil {
					for _, r := range *refs {
						if ex, ok := r.(*ssa.Extract); ok {
							if ex.Index == n-1 && ex.Referrers() != nil && len(*ex.Referrers()) > 0 {
								used = true
							}
							continue
						}
						if _, ok := r.(*ssa.DebugRef); ok {
							continue
						}
						if n == 1 {
							used = true
						}
					}
				}
				if !used {
					out = append(out, droppedErr{ins, name, "error result unused"})
				}
			}
		}
	}
	return out
}

// checkNoDroppedErrors applies the rule to every function of the packages.
// exempt: substring of "callee@function" -> reason.
func checkNoDroppedErrors(c *Check, rule string, exempt map[string]string, rels ...string) int {
	p := c.P
	n := 0
	for _, rel := range rels {
		for _, f := range p.FuncsOfPkg(rel) {
			for _, d := range droppedErrors(f) {
				n++
				key := d.callee + "@" + fnName(f)
				why := ""
				for k, r := range exempt {
					if strings.Contains(key, k) {
						why = r
					}
				}
				if why != "" {
					c.Ob(rule, "dropped error: "+key, true, p.Pos(d.ins.Pos()), "exception: "+why)
					continue
				}
				c.Ob(rule, "dropped error: "+key, false, p.Pos(d.ins.Pos()), d.how+": an error of the storage layer must be returned, joined or logged")
			}
		}
	}
	return n
}

var _ = types.Universe

// errorReturningCalls: all call instructions in fn whose last result is an error.
func errorReturningCalls(fn *ssa.Function) []ssa.CallInstruction {
	var out []ssa.CallInstruction
	for _, b := range fn.Blocks {
		for _, ins := range b.Instrs {
			ci, ok := ins.(ssa.CallInstruction)
			if !ok {
				continue
			}
			sig := ci.Common().Signature()
			n := sig.Results().Len()
			if n > 0 && isErrorType(sig.Results().At(n-1).Type()) {
				out = append(out, ci)
			}
		}
	}
	return out
}
