package main

// E4 - LOCKS: abstract locks, held sets over the CFG, lock-order graph with cycle
// detection, and guarded-by obligations propagated to their root callers.

import (
	"fmt"
	"go/token"
	"sort"
	"strings"

	"golang.org/x/tools/go/ssa"
)

type lockOp struct {
	id      string
	acquire bool
	read    bool
}

// lockName abstracts the mutex value a sync method is invoked on:
// owner type + field path ("peers.pool.m"), "[*]" for an element of a striped
// array, "ret:f" for a mutex returned by a function.
func lockName(v ssa.Value, depth int) string {
	if depth > 6 {
		return "?"
	}
	switch x := v.(type) {
	case *ssa.FieldAddr:
		f := fieldOf(x)
		owner := derefNamed(x.X.Type())
		on := "?"
		if owner != nil {
			on = owner.Obj().Pkg().Name() + "." + owner.Obj().Name()
		} else {
			// field of an embedded/anonymous struct reached through another FieldAddr
			on = lockName(x.X, depth+1)
		}
		if f == nil {
			return on + ".?"
		}
		return on + "." + f.Name()
	case *ssa.UnOp:
		if x.Op == token.MUL {
			return lockName(x.X, depth+1)
		}
	case *ssa.IndexAddr:
		return lockName(x.X, depth+1) + "[*]"
	case *ssa.Call:
		if f := x.Call.StaticCallee(); f != nil {
			return "ret:" + fnName(f)
		}
		return "ret:?"
	case *ssa.Extract:
		return lockName(x.Tuple, depth+1)
	case *ssa.Phi:
		if len(x.Edges) > 0 {
			return lockName(x.Edges[0], depth+1)
		}
	case *ssa.Parameter:
		return "param:" + x.Parent().Name() + "." + x.Name()
	case *ssa.FreeVar:
		return "fv:" + x.Name()
	case *ssa.Alloc:
		return "local:" + x.Comment
	case *ssa.Global:
		return "global:" + x.Name()
	}
	return "?"
}

func lockOpOf(call ssa.CallInstruction) *lockOp {
	o := calleeObj(call.Common())
	if o == nil || pkgPathOf(o) != "sync" {
		return nil
	}
	rn := recvNamed(o)
	if rn == nil || (rn.Obj().Name() != "Mutex" && rn.Obj().Name() != "RWMutex") {
		return nil
	}
	args := call.Common().Args
	if len(args) == 0 {
		return nil
	}
	op := &lockOp{id: lockName(args[0], 0)}
	switch o.Name() {
	case "Lock":
		op.acquire = true
	case "RLock":
		op.acquire, op.read = true, true
	case "Unlock":
	case "RUnlock":
		op.read = true
	default:
		return nil
	}
	return op
}

type lockSet map[string]bool

func (s lockSet) clone() lockSet {
	o := lockSet{}
	for k := range s {
		o[k] = true
	}
	return o
}

func (s lockSet) keys() []string {
	var o []string
	for k := range s {
		o = append(o, k)
	}
	sort.Strings(o)
	return o
}

type lockEdge struct {
	from, to string
	where    string // description of the acquisition site / call chain
}

type lockAnalysis struct {
	p       *Program
	funcs   []*ssa.Function
	inScope map[*ssa.Function]bool
	// may-held and must-held sets before each instruction
	mayBefore  map[ssa.Instruction]lockSet
	mustBefore map[ssa.Instruction]lockSet
	// locks (transitively) acquired by a function, with one witness chain each
	acq map[*ssa.Function]map[string]string
	// net effect of wrapper functions: locks held at every return that were taken inside
	netAcquire map[*ssa.Function]lockSet
	netRelease map[*ssa.Function]lockSet
	edges      []lockEdge
	locks      map[string]bool
}

func newLockAnalysis(p *Program, pkgs ...string) *lockAnalysis {
	la := &lockAnalysis{p: p, inScope: map[*ssa.Function]bool{}, mayBefore: map[ssa.Instruction]lockSet{}, mustBefore: map[ssa.Instruction]lockSet{},
		acq: map[*ssa.Function]map[string]string{}, netAcquire: map[*ssa.Function]lockSet{}, netRelease: map[*ssa.Function]lockSet{}, locks: map[string]bool{}}
	for _, rel := range pkgs {
		for _, f := range p.FuncsOfPkg(rel) {
			la.funcs = append(la.funcs, f)
			la.inScope[f] = true
		}
	}
	// 1. wrapper summaries (two rounds are enough for lock()/unlock() helpers)
	for round := 0; round < 3; round++ {
		for _, f := range la.funcs {
			la.flow(f, false)
		}
	}
	// 2. final flows recording per-instruction sets
	for _, f := range la.funcs {
		la.flow(f, true)
	}
	// 3. transitive acquisitions
	for _, f := range la.funcs {
		m := map[string]string{}
		for _, b := range f.Blocks {
			for _, ins := range b.Instrs {
				if c, ok := ins.(*ssa.Call); ok {
					if op := lockOpOf(c); op != nil && op.acquire {
						m[op.id] = fmt.Sprintf("%s locks %s at %s", fnName(f), op.id, p.Pos(c.Pos()))
						la.locks[op.id] = true
					}
				}
			}
		}
		la.acq[f] = m
	}
	for changed := true; changed; {
		changed = false
		for _, f := range la.funcs {
			for _, b := range f.Blocks {
				for _, ins := range b.Instrs {
					c, ok := ins.(*ssa.Call) // go and defer statements are not synchronous calls under the current held set
					if !ok {
						continue
					}
					for _, g := range la.calleesOf(c) {
						for l, w := range la.acq[g] {
							if _, have := la.acq[f][l]; !have {
								la.acq[f][l] = fmt.Sprintf("%s calls %s at %s; %s", fnName(f), fnName(g), p.Pos(c.Pos()), w)
								changed = true
							}
						}
					}
				}
			}
		}
	}
	// 4. order edges
	for _, f := range la.funcs {
		for _, b := range f.Blocks {
			for _, ins := range b.Instrs {
				c, ok := ins.(*ssa.Call)
				if !ok {
					continue
				}
				held := la.mayBefore[c]
				if len(held) == 0 {
					continue
				}
				if op := lockOpOf(c); op != nil {
					if op.acquire {
						for h := range held {
							la.edges = append(la.edges, lockEdge{h, op.id, fmt.Sprintf("%s holds %s and locks %s at %s", fnName(f), h, op.id, p.Pos(c.Pos()))})
						}
					}
					continue
				}
				for _, g := range la.calleesOf(c) {
					for l, w := range la.acq[g] {
						for h := range held {
							la.edges = append(la.edges, lockEdge{h, l, fmt.Sprintf("%s holds %s at %s; %s", fnName(f), h, p.Pos(c.Pos()), w)})
						}
					}
				}
			}
		}
	}
	return la
}

func (la *lockAnalysis) calleesOf(c ssa.CallInstruction) []*ssa.Function {
	var out []*ssa.Function
	for _, g := range la.p.Callees(c) {
		if la.inScope[g] {
			out = append(out, g)
		}
	}
	return out
}

// flow runs the held-set dataflow over f. Deferred unlocks release at function
// exit (i.e. never, as far as instructions inside f are concerned).
func (la *lockAnalysis) flow(f *ssa.Function, record bool) {
	if len(f.Blocks) == 0 {
		return
	}
	type st struct{ may, must lockSet }
	in := map[*ssa.BasicBlock]*st{}
	out := map[*ssa.BasicBlock]*st{}
	entry := &st{may: lockSet{}, must: lockSet{}}
	in[f.Blocks[0]] = entry
	deferredRelease := lockSet{}
	work := []*ssa.BasicBlock{f.Blocks[0]}
	visits := 0
	for len(work) > 0 && visits < 4000 {
		b := work[0]
		work = work[1:]
		visits++
		cur := &st{may: in[b].may.clone(), must: in[b].must.clone()}
		for _, ins := range b.Instrs {
			if record {
				la.mayBefore[ins] = cur.may.clone()
				la.mustBefore[ins] = cur.must.clone()
			}
			switch x := ins.(type) {
			case *ssa.Call:
				if op := lockOpOf(x); op != nil {
					if op.acquire {
						cur.may[op.id] = true
						cur.must[op.id] = true
					} else {
						delete(cur.may, op.id)
						delete(cur.must, op.id)
					}
					continue
				}
				if g := x.Call.StaticCallee(); g != nil {
					for l := range la.netAcquire[g] {
						cur.may[l] = true
						cur.must[l] = true
					}
					for l := range la.netRelease[g] {
						delete(cur.may, l)
						delete(cur.must, l)
					}
				}
			case *ssa.Defer:
				if op := lockOpOf(x); op != nil && !op.acquire {
					deferredRelease[op.id] = true
				}
				if g := x.Call.StaticCallee(); g != nil {
					for l := range la.netRelease[g] {
						deferredRelease[l] = true
					}
				}
			}
		}
		prev := out[b]
		changed := prev == nil || !sameSet(prev.may, cur.may) || !sameSet(prev.must, cur.must)
		out[b] = cur
		if !changed {
			continue
		}
		for _, s := range b.Succs {
			if in[s] == nil {
				in[s] = &st{may: cur.may.clone(), must: cur.must.clone()}
				work = append(work, s)
				continue
			}
			ch := false
			for l := range cur.may {
				if !in[s].may[l] {
					in[s].may[l] = true
					ch = true
				}
			}
			for l := range in[s].must {
				if !cur.must[l] {
					delete(in[s].must, l)
					ch = true
				}
			}
			if ch {
				work = append(work, s)
			}
		}
	}
	// wrapper summary: locks held at every return and not released by a defer
	var acq lockSet
	rel := lockSet{}
	first := true
	for _, r := range returnsOf(f) {
		o := out[r.Block()]
		if o == nil {
			continue
		}
		held := lockSet{}
		for l := range o.must {
			if !deferredRelease[l] {
				held[l] = true
			}
		}
		if first {
			acq = held
			first = false
		} else {
			for l := range acq {
				if !held[l] {
					delete(acq, l)
				}
			}
		}
	}
	// unlock wrappers: an Unlock of a lock never locked inside f
	lockedHere := lockSet{}
	for _, b := range f.Blocks {
		for _, ins := range b.Instrs {
			if c, ok := ins.(ssa.CallInstruction); ok {
				if op := lockOpOf(c); op != nil && op.acquire {
					lockedHere[op.id] = true
				}
			}
		}
	}
	for _, b := range f.Blocks {
		for _, ins := range b.Instrs {
			if c, ok := ins.(*ssa.Call); ok {
				if op := lockOpOf(c); op != nil && !op.acquire && !lockedHere[op.id] {
					rel[op.id] = true
				}
			}
		}
	}
	if acq == nil {
		acq = lockSet{}
	}
	la.netAcquire[f] = acq
	la.netRelease[f] = rel
}

func sameSet(a, b lockSet) bool {
	if len(a) != len(b) {
		return false
	}
	for k := range a {
		if !b[k] {
			return false
		}
	}
	return true
}

// cycles returns the elementary cycles of the order graph restricted to locks
// accepted by keep (self-loops included), each with one witness per edge.
func (la *lockAnalysis) cycles(keep func(string) bool) [][]lockEdge {
	adj := map[string]map[string]lockEdge{}
	for _, e := range la.edges {
		if !keep(e.from) || !keep(e.to) {
			continue
		}
		if adj[e.from] == nil {
			adj[e.from] = map[string]lockEdge{}
		}
		if _, ok := adj[e.from][e.to]; !ok {
			adj[e.from][e.to] = e
		}
	}
	var nodes []string
	for n := range adj {
		nodes = append(nodes, n)
	}
	sort.Strings(nodes)
	var out [][]lockEdge
	seenCycle := map[string]bool{}
	var path []lockEdge
	var dfs func(start, cur string, onPath map[string]bool)
	dfs = func(start, cur string, onPath map[string]bool) {
		var tos []string
		for t := range adj[cur] {
			tos = append(tos, t)
		}
		sort.Strings(tos)
		for _, t := range tos {
			e := adj[cur][t]
			if t == start {
				cyc := append(append([]lockEdge{}, path...), e)
				// canonical key: sorted node list
				var ns []string
				for _, ce := range cyc {
					ns = append(ns, ce.from)
				}
				sort.Strings(ns)
				k := strings.Join(ns, "|")
				if !seenCycle[k] {
					seenCycle[k] = true
					out = append(out, cyc)
				}
				continue
			}
			if onPath[t] || t < start || len(path) > 6 {
				continue
			}
			onPath[t] = true
			path = append(path, e)
			dfs(start, t, onPath)
			path = path[:len(path)-1]
			delete(onPath, t)
		}
	}
	for _, n := range nodes {
		dfs(n, n, map[string]bool{n: true})
	}
	return out
}

// ---- guarded-by ----

type guardRule struct {
	ownerPkg, ownerType string
	fields              []string
	lock                string
	reason              string
	// functions (by fnName suffix) exempt: constructors and documented exceptions
	exempt map[string]string
}

type fieldAccess struct {
	ins   ssa.Instruction
	fn    *ssa.Function
	field string
	write bool
}

func (la *lockAnalysis) fieldAccesses(gr guardRule) []fieldAccess {
	want := map[string]bool{}
	for _, f := range gr.fields {
		want[f] = true
	}
	var out []fieldAccess
	for _, f := range la.funcs {
		for _, b := range f.Blocks {
			for _, ins := range b.Instrs {
				fa, ok := ins.(*ssa.FieldAddr)
				if !ok {
					continue
				}
				fv := fieldOf(fa)
				owner := derefNamed(fa.X.Type())
				if fv == nil || owner == nil || !want[fv.Name()] || owner.Obj().Name() != gr.ownerType || owner.Obj().Pkg().Path() != gr.ownerPkg {
					continue
				}
				// classify by the uses of the address
				write := false
				used := false
				if refs := fa.Referrers(); refs != nil {
					for _, r := range *refs {
						switch y := r.(type) {
						case *ssa.Store:
							if y.Addr == ssa.Value(fa) {
								write, used = true, true
							}
						case *ssa.UnOp:
							used = true
							// map/slice header loaded and then updated
							if lr := y.Referrers(); lr != nil {
								for _, r2 := range *lr {
									switch z := r2.(type) {
									case *ssa.MapUpdate:
										if z.Map == ssa.Value(y) {
											write = true
										}
									case *ssa.Call:
										if bi, ok := z.Call.Value.(*ssa.Builtin); ok && bi.Name() == "delete" {
											write = true
										}
									}
								}
							}
						default:
							used = true
						}
					}
				}
				if used {
					out = append(out, fieldAccess{ins: fa, fn: f, field: fv.Name(), write: write})
				}
			}
		}
	}
	return out
}

// checkGuarded: every access of a guarded field happens with the lock in the
// must-held set, locally or on every call path from a root (a function with no
// in-scope caller, a goroutine body, or a function whose address is taken).
// Violations are reported per (root, access function).
func (la *lockAnalysis) checkGuarded(c *Check, rule string, gr guardRule) int {
	p := la.p
	// callers map (synchronous calls only)
	type site struct {
		caller *ssa.Function
		ins    ssa.Instruction
	}
	callers := map[*ssa.Function][]site{}
	escapes := map[*ssa.Function]bool{}
	for _, f := range la.funcs {
		for _, b := range f.Blocks {
			for _, ins := range b.Instrs {
				switch x := ins.(type) {
				case *ssa.Call:
					for _, g := range la.calleesOf(x) {
						callers[g] = append(callers[g], site{f, x})
					}
				case *ssa.Go:
					for _, g := range la.calleesOf(x) {
						escapes[g] = true
					}
				case *ssa.Defer:
					for _, g := range la.calleesOf(x) {
						callers[g] = append(callers[g], site{f, x})
					}
				case *ssa.MakeClosure:
					if g, ok := x.Fn.(*ssa.Function); ok {
						// a closure that is only called synchronously in its parent is handled by calleesOf; otherwise it escapes
						escapes[g] = true
					}
				}
			}
		}
	}
	accs := la.fieldAccesses(gr)
	n := 0
	for _, a := range accs {
		name := fnName(a.fn)
		exempted := false
		for suffix, why := range gr.exempt {
			if strings.HasSuffix(name, suffix) {
				c.Ob(rule, gr.ownerType+"."+a.field+"@"+name, true, p.Pos(a.ins.Pos()), "exception: "+why)
				exempted = true
			}
		}
		if exempted {
			continue
		}
		n++
		if la.mustBefore[a.ins][gr.lock] {
			c.Ob(rule, gr.ownerType+"."+a.field+"@"+name, true, p.Pos(a.ins.Pos()), "accessed with "+gr.lock+" held")
			continue
		}
		// propagate the requirement to callers
		type node struct {
			f    *ssa.Function
			path []string
		}
		bad := ""
		var badPath []string
		seen := map[*ssa.Function]bool{a.fn: true}
		queue := []node{{a.fn, []string{name + " accesses " + a.field + " at " + p.Pos(a.ins.Pos())}}}
		for len(queue) > 0 && bad == "" {
			nd := queue[0]
			queue = queue[1:]
			cs := callers[nd.f]
			if len(cs) == 0 || escapes[nd.f] && nd.f.Parent() == nil && false {
				bad = fnName(nd.f)
				badPath = nd.path
				break
			}
			if escapes[nd.f] && len(cs) == 0 {
				bad = fnName(nd.f)
				badPath = nd.path
				break
			}
			for _, s := range cs {
				if la.mustBefore[s.ins][gr.lock] {
					continue
				}
				if _, isDefer := s.ins.(*ssa.Defer); isDefer {
					// deferred call: runs at exit; held iff a deferred unlock was registered later... be conservative: look at must set at the defer
					if la.mustBefore[s.ins][gr.lock] {
						continue
					}
				}
				if seen[s.caller] {
					continue
				}
				seen[s.caller] = true
				queue = append(queue, node{s.caller, append(append([]string{}, nd.path...), fmt.Sprintf("called without %s from %s at %s", gr.lock, fnName(s.caller), p.Pos(s.ins.Pos())))})
			}
		}
		if bad != "" {
			c.Ob(rule, gr.ownerType+"."+a.field+"@"+name, false, p.Pos(a.ins.Pos()),
				fmt.Sprintf("%s.%s is accessed without %s on a path from %s (%s)", gr.ownerType, a.field, gr.lock, bad, gr.reason), badPath...)
		} else {
			c.Ob(rule, gr.ownerType+"."+a.field+"@"+name, true, p.Pos(a.ins.Pos()), "every caller holds "+gr.lock)
		}
	}
	return n
}
