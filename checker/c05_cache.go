package main

import (
	"go/types"

	"golang.org/x/tools/go/ssa"
)

// R5.4 invariants of the proofs-caching wrapper's axis cache. The wrapper sits
// in front of every file representation; AxisHalf/Shares/Reader trust any
// cached entry, so an entry must always hold the inner accessor's own half for
// its key.
//
//	(a) provenance: every store into axisWithProofs.half, or into a field of
//	    it, stores the result of c.inner.AxisHalf(ctx, axisType, axisIdx) for
//	    the enclosing method's own key (the half is never re-pointed);
//	(b) completeness: storeAxisInCache is reachable only with the entry's half
//	    set: across the ok side of getAxisFromCache for the same key, or after
//	    an assignment of kind (a);
//	(c) key agreement: getAxisFromCache, storeAxisInCache and inner.AxisHalf
//	    receive the method's own (axisType, axisIdx) parameters; both helpers
//	    index the cache as [axisType][axisIdx].
func c05ProofsCache(c *Check, rule string) {
	p := c.P
	if rule == "R5.4" {
		defer c05RelativeLinks(c)
	}
	c.Rule(rule, "proofs-cache entries always hold the inner accessor's own half for their key (provenance, completeness, key agreement)")
	get := p.Func("share/eds", "proofsCache", "getAxisFromCache")
	put := p.Func("share/eds", "proofsCache", "storeAxisInCache")
	if get == nil || put == nil {
		c.Unresolved(rule, "proofsCache.getAxisFromCache/storeAxisInCache not found")
		return
	}
	c.SawFunc(get)
	c.SawFunc(put)
	isHalfAddr := func(v ssa.Value) (whole bool, ok bool) {
		fa, isFA := v.(*ssa.FieldAddr)
		if !isFA {
			return false, false
		}
		if f := fieldOf(fa); f != nil && f.Name() == "half" && ownerName(fa) == "axisWithProofs" {
			return true, true
		}
		// a field of .half
		if in, isIn := fa.X.(*ssa.FieldAddr); isIn {
			if f := fieldOf(in); f != nil && f.Name() == "half" && ownerName(in) == "axisWithProofs" {
				return false, true
			}
		}
		return false, false
	}
	ownKey := func(fn *ssa.Function, t, i ssa.Value) bool {
		root := fn
		tp, ok1 := t.(*ssa.Parameter)
		ip, ok2 := i.(*ssa.Parameter)
		return ok1 && ok2 && tp.Parent() == root && ip.Parent() == root && tp.Name() == "axisType" && ip.Name() == "axisIdx"
	}
	isInnerHalf := func(fn *ssa.Function, v ssa.Value) bool {
		g, idx := resolveCallThroughLocals(v)
		if g == nil || idx != 0 || !g.Call.IsInvoke() || g.Call.Method.Name() != "AxisHalf" {
			return false
		}
		if f := fieldOfAddr(g.Call.Value); f == nil || f.Name() != "inner" {
			return false
		}
		return len(g.Call.Args) == 3 && ownKey(fn, g.Call.Args[1], g.Call.Args[2])
	}
	nStores, nPuts := 0, 0
	for _, fn := range p.FuncsOfPkg("share/eds") {
		if recvName(rootFunc(fn)) != "proofsCache" {
			continue
		}
		halfStoreBlocks := map[*ssa.BasicBlock]bool{}
		for _, b := range fn.Blocks {
			for _, ins := range b.Instrs {
				st, ok := ins.(*ssa.Store)
				if !ok {
					continue
				}
				whole, isHalf := isHalfAddr(st.Addr)
				if !isHalf {
					continue
				}
				nStores++
				c.SawFunc(fn)
				good := whole && isInnerHalf(fn, st.Val)
				c.Ob(rule, "half assigned@"+fnName(fn), good, p.Pos(st.Pos()),
					"the cached half is assigned only as a whole and only from c.inner.AxisHalf(ctx, axisType, axisIdx) of the method's own key")
				if good {
					halfStoreBlocks[b] = true
				}
			}
		}
		for _, b := range fn.Blocks {
			for idx, ins := range b.Instrs {
				g, ok := ins.(*ssa.Call)
				if !ok {
					continue
				}
				switch g.Call.StaticCallee() {
				case get:
					c.Ob(rule, "cache lookup key@"+fnName(fn), ownKey(fn, g.Call.Args[1], g.Call.Args[2]), p.Pos(g.Pos()), "getAxisFromCache is asked about the method's own (axisType, axisIdx)")
				case put:
					nPuts++
					c.SawFunc(fn)
					c.Ob(rule, "cache store key@"+fnName(fn), ownKey(fn, g.Call.Args[1], g.Call.Args[2]), p.Pos(g.Pos()), "storeAxisInCache stores under the method's own (axisType, axisIdx)")
					// completeness
					inBlock := false
					for _, prev := range b.Instrs[:idx] {
						if st, ok := prev.(*ssa.Store); ok {
							if whole, isHalf := isHalfAddr(st.Addr); isHalf && whole && isInnerHalf(fn, st.Val) {
								inBlock = true
							}
						}
					}
					if inBlock {
						c.Ob(rule, "entry complete@"+fnName(fn), true, p.Pos(g.Pos()), "half assigned from the inner accessor immediately before the entry is stored")
						continue
					}
					okCut := callGates(func(k *ssa.Call, resIdx int) GateKind {
						if k.Call.StaticCallee() == get && resIdx == 1 {
							return GateTrue
						}
						return NotGate
					})
					res := gateWalkBarrier(p, fn, map[*ssa.BasicBlock]bool{b: true}, okCut, halfStoreBlocks)
					c.Ob(rule, "entry complete@"+fnName(fn), !res.Reached, p.Pos(g.Pos()),
						"an entry is stored only if it came from the cache for this key (ok) or its half was just read from the inner accessor", res.Witness...)
				}
			}
		}
	}
	c.Floor(rule, "assignments of the cached half", nStores, 3)
	c.Floor(rule, "storeAxisInCache call sites", nPuts, 3)
	// (c) helpers index [axisType][axisIdx]
	for _, h := range []*ssa.Function{get, put} {
		okIdx, okMap := false, false
		for _, b := range h.Blocks {
			for _, ins := range b.Instrs {
				switch x := ins.(type) {
				case *ssa.IndexAddr:
					if pr, ok := stripConv(x.Index).(*ssa.Parameter); ok && pr.Name() == "axisType" {
						okIdx = true
					}
				case *ssa.Lookup:
					if pr, ok := stripConv(x.Index).(*ssa.Parameter); ok && pr.Name() == "axisIdx" {
						okMap = true
					}
				case *ssa.MapUpdate:
					if pr, ok := stripConv(x.Key).(*ssa.Parameter); ok && pr.Name() == "axisIdx" {
						okMap = true
					}
				}
			}
		}
		c.Ob(rule, "cache indexed [axisType][axisIdx]@"+fnName(h), okIdx && okMap, p.Pos(h.Pos()), "the per-axis-type slice is indexed by axisType and the map by axisIdx in both helpers")
	}
}

func stripConv(v ssa.Value) ssa.Value {
	for {
		switch x := v.(type) {
		case *ssa.Convert:
			v = x.X
		case *ssa.ChangeType:
			v = x.X
		default:
			return v
		}
	}
}

func ownerName(fa *ssa.FieldAddr) string {
	t := fa.X.Type()
	if pt, ok := t.Underlying().(*types.Pointer); ok {
		t = pt.Elem()
	}
	if n, ok := t.(*types.Named); ok {
		return n.Obj().Name()
	}
	return ""
}

// c05RelativeLinks (R5.7): the height entry of the empty block is a symlink, and its
// target is relative to the link's own directory (built without Store.basepath): a
// store opened under a relative path, or moved, must still resolve it. Hard links
// (all other blocks) have no such constraint.
func c05RelativeLinks(c *Check) {
	p := c.P
	c.Rule("R5.7", "symlink targets in the store do not contain the store's base path (relocatable, valid under a relative store path)")
	n := 0
	for _, f := range p.FuncsOfPkg("store") {
		for _, b := range f.Blocks {
			for _, ins := range b.Instrs {
				g, ok := ins.(*ssa.Call)
				if !ok {
					continue
				}
				o := calleeObj(&g.Call)
				isSym := o != nil && ((o.Name() == "Symlink" && pkgPathOf(o) == "os") || (o.Name() == "symlink" && pkgPathOf(o) == modPath+"/store"))
				if !isSym || len(g.Call.Args) < 2 {
					continue
				}
				// skip the wrapper's own body (its parameters)
				if _, isParam := g.Call.Args[0].(*ssa.Parameter); isParam {
					continue
				}
				n++
				c.SawFunc(f)
				sl := backSlice(g.Call.Args[0], SliceOpt{CallArgs: true, CalleeDepth: 2, P: p})
				c.Ob("R5.7", "symlink target@"+fnName(f), !sl.HasFieldNamed("Store", "basepath"), p.Pos(g.Pos()),
					"the link target is built without Store.basepath (relative to the heights directory)")
			}
		}
	}
	c.Floor("R5.7", "symlink creations in package store", n, 1)
}
