package main

import (
	"fmt"
	"go/token"
	"strings"

	"golang.org/x/tools/go/ssa"
)

func init() {
	register("C14", runC14,
		"Structural necessary conditions of 'pruning removes only data older than the window, and all of it' (the height-estimate arithmetic, termination and boundedness of a cycle, and eventual pruning are not decided). R14.1 who-may-prune: the only call sites of the Pruner interface's Prune in package pruner are the pruning round (headers taken from findPruneableHeaders' result), the retry of recorded failures and the header-delete hook; any other site or provenance is a violation. R14.2 cutoff filter on every producing path: every return of a non-nil header slice from findPruneableHeaders is dominated by the header of the range loop over the candidates whose rejecting test compares the candidate's Time() with the cutoff; the cutoff derives from head.Time() and the configured window and not from the wall clock; the early 'nothing to prune' test uses the same cutoff. R14.3 archival prune: on the archival side full.ShareAvailability.Prune reaches RemoveQ4 only, and store.removeQ4 removes only the path built with the Q4 extension. R14.4 guarded-by: Service.checkpoint under checkpointMu on every call path. R14.5 no backward move: every store to checkpoint.LastPrunedHeight outside construction/reset is reachable from the most recent acquisition of checkpointMu only across a rejecting comparison of the new height with the current one (updateCheckpoint is the reasoned exception); ResetCheckpoint has exactly the known callers.",
		"the pruning round passes updateCheckpoint a height that only advances along the fetched header list")
}

const pkgPruner = modPath + "/pruner"

func runC14(c *Check) {
	p := c.P
	c.Rule("R14.1", "Pruner.Prune is called only from the three known sites with known provenance")
	c.Rule("R14.2", "every header slice handed to pruning passed the time-based cutoff filter; cutoff = head time - window")
	c.Rule("R14.3", "archival pruning removes only the parity quadrant")
	c.Rule("R14.4", "checkpoint state guarded by checkpointMu")
	c.Rule("R14.5", "LastPrunedHeight never moves backwards: stores re-check under the lock they hold")
	// R14.1
	find := p.Func("pruner", "Service", "findPruneableHeaders")
	if find == nil {
		c.Unresolved("R14.2", "findPruneableHeaders not found")
		return
	}
	c.SawFunc(find)
	allowed := map[string]string{"prune": "pruning round", "retryFailed": "retry of recorded failures", "pruneOnHeaderDelete": "header-delete hook"}
	n := 0
	for _, f := range p.FuncsOfPkg("pruner") {
		for _, b := range f.Blocks {
			for _, ins := range b.Instrs {
				g, ok := ins.(ssa.CallInstruction)
				if !ok || !g.Common().IsInvoke() || g.Common().Method.Name() != "Prune" {
					continue
				}
				if n2 := derefNamed(g.Common().Value.Type()); n2 == nil || n2.Obj().Name() != "Pruner" {
					continue
				}
				n++
				c.SawFunc(f)
				root := rootFunc(f)
				why, ok := allowed[root.Name()]
				if !ok && p.onlyCalledFrom(root, func(g *ssa.Function) bool { _, a := allowed[g.Name()]; return a && recvName(g) == "Service" }, 0) {
					why, ok = "helper called only from the allowed sites", true
				}
				c.Ob("R14.1", "Prune@"+fnName(f), ok, p.Pos(g.Pos()), "allowed site: "+why)
				if root.Name() == "prune" {
					sl := backSlice(g.Common().Args[len(g.Common().Args)-1], SliceOpt{})
					c.Ob("R14.1", "Prune@prune: provenance", sl.Has(func(v ssa.Value) bool {
						cc, ok := v.(*ssa.Call)
						return ok && cc.Call.StaticCallee() == find
					}), p.Pos(g.Pos()), "the header pruned in a round is an element of findPruneableHeaders' result")
				}
			}
		}
	}
	c.Floor("R14.1", "call sites of Pruner.Prune", n, 3)
	// R14.2
	// the cutoff value: Add(-window) on head.Time()
	isCutoff := func(v ssa.Value) bool {
		sl := backSlice(v, SliceOpt{CallArgs: true})
		usesWindow := sl.HasFieldNamed("Service", "window")
		usesHead := sl.Has(func(x ssa.Value) bool {
			g, ok := x.(*ssa.Call)
			return ok && g.Call.IsInvoke() && g.Call.Method.Name() == "Head"
		})
		return usesWindow && usesHead
	}
	var cutoffCmps []*ssa.BasicBlock
	for _, b := range find.Blocks {
		ifi, ok := b.Instrs[len(b.Instrs)-1].(*ssa.If)
		if !ok {
			continue
		}
		g, ok := stripNot(ifi.Cond).Base.(*ssa.Call)
		if !ok {
			continue
		}
		o := calleeObj(&g.Call)
		if o == nil || pkgPathOf(o) != "time" || (o.Name() != "After" && o.Name() != "Before") || len(g.Call.Args) != 2 {
			continue
		}
		if isCutoff(g.Call.Args[1]) || isCutoff(g.Call.Args[0]) {
			cutoffCmps = append(cutoffCmps, b)
		}
	}
	c.Floor("R14.2", "comparisons with the cutoff in findPruneableHeaders", len(cutoffCmps), 3)
	// no wall clock in the cutoff
	wall := false
	for _, b := range find.Blocks {
		for _, ins := range b.Instrs {
			if g, ok := ins.(*ssa.Call); ok {
				if o := calleeObj(&g.Call); o != nil && pkgPathOf(o) == "time" && (o.Name() == "Now" || o.Name() == "Since") {
					wall = true
				}
			}
		}
	}
	c.Ob("R14.2", "cutoff independent of the wall clock", !wall, p.Pos(find.Pos()), "the cutoff is measured from the chain head's time, not from time.Now()")
	// the filter loop: a rangeindex loop containing a cutoff comparison on its element
	var filterHead *ssa.BasicBlock
	for _, b := range find.Blocks {
		if b.Comment != "rangeindex.loop" {
			continue
		}
		for _, cb := range cutoffCmps {
			if b.Dominates(cb) && cb != b {
				// the comparison is inside this loop's body: body = blocks dominated by Succs[0]
				if len(b.Succs) == 2 && b.Succs[0].Dominates(cb) {
					filterHead = b
				}
			}
		}
	}
	c.Ob("R14.2", "filter loop present", filterHead != nil, p.Pos(find.Pos()), "a range loop over the candidate headers rejects headers newer than the cutoff")
	nRet := 0
	for _, r := range returnsOf(find) {
		if cls, _ := classifyReturn(r, errResultIndex(find)); cls == retErr {
			continue
		}
		if isNilConst(r.Results[0]) {
			continue
		}
		nRet++
		ok := filterHead != nil && filterHead.Dominates(r.Block())
		c.Ob("R14.2", fmt.Sprintf("non-empty return #%d", nRet), ok, p.Pos(r.Pos()),
			"a header slice is returned only from inside or after the cutoff filter loop (no path hands headers to pruning without the time filter)")
	}
	c.Floor("R14.2", "non-empty returns of findPruneableHeaders", nRet, 2)
	// R14.3
	fp := p.Func("share/availability/full", "ShareAvailability", "Prune")
	if fp == nil {
		c.Unresolved("R14.3", "full.ShareAvailability.Prune not found")
	} else {
		c.SawFunc(fp)
		var archSucc *ssa.BasicBlock
		for _, b := range fp.Blocks {
			if ifi, ok := b.Instrs[len(b.Instrs)-1].(*ssa.If); ok {
				a := stripNot(ifi.Cond)
				if f := fieldOfAddr(a.Base); f != nil && f.Name() == "archival" {
					archSucc = b.Succs[0]
					if a.Neg {
						archSucc = b.Succs[1]
					}
				}
			}
		}
		if archSucc == nil {
			c.Ob("R14.3", "archival branch", false, p.Pos(fp.Pos()), "Prune does not branch on the archival flag")
		} else {
			full := blocksWhere(fp, func(ins ssa.Instruction) bool {
				g, ok := ins.(*ssa.Call)
				return ok && calleeObj(&g.Call) != nil && calleeObj(&g.Call).Name() == "RemoveODSQ4"
			})
			q4 := blocksWhere(fp, func(ins ssa.Instruction) bool {
				g, ok := ins.(*ssa.Call)
				return ok && calleeObj(&g.Call) != nil && calleeObj(&g.Call).Name() == "RemoveQ4"
			})
			res := gateWalkOpts(p, fp, full, nil, archSucc, nil)
			res2 := gateWalkOpts(p, fp, q4, nil, archSucc, nil)
			c.Ob("R14.3", "archival side removes Q4 only", !res.Reached && res2.Reached, p.Pos(fp.Pos()), "on the archival side RemoveQ4 is reached and RemoveODSQ4 is not", res.Witness...)
			// pruning a header always asks the store to remove: the store decides what exists (files without a
			// height link - a crash before linking - are removed by hash); a shortcut that skips the call
			// reports a block as pruned that is still on disk
			anyRm := map[*ssa.BasicBlock]bool{}
			for b := range full {
				anyRm[b] = true
			}
			for b := range q4 {
				anyRm[b] = true
			}
			succ := blocksOfReturns(successReturns(fp))
			res3 := gateWalkOpts(p, fp, minusBarrier(succ, anyRm), nil, nil, anyRm)
			c.Ob("R14.3", "Prune always reaches a removal", !res3.Reached, p.Pos(fp.Pos()), "every success return of full.ShareAvailability.Prune passes RemoveODSQ4 or RemoveQ4", res3.Witness...)
		}
	}
	if rq := p.Func("store", "Store", "removeQ4"); rq != nil {
		c.SawFunc(rq)
		okExt, bad := false, false
		for _, b := range rq.Blocks {
			for _, ins := range b.Instrs {
				g, ok := ins.(*ssa.Call)
				if !ok || g.Call.StaticCallee() == nil {
					continue
				}
				switch g.Call.StaticCallee().Name() {
				case "remove":
					sl := backSlice(g.Call.Args[0], SliceOpt{CallArgs: true})
					q4 := sl.Has(func(v ssa.Value) bool {
						k, ok := v.(*ssa.Const)
						return ok && k.Value != nil && strings.Contains(k.Value.ExactString(), ".q4")
					})
					other := sl.Has(func(v ssa.Value) bool {
						k, ok := v.(*ssa.Const)
						return ok && k.Value != nil && strings.Contains(k.Value.ExactString(), ".ods")
					}) || sl.Has(func(v ssa.Value) bool {
						h, ok := v.(*ssa.Call)
						return ok && h.Call.StaticCallee() != nil && h.Call.StaticCallee().Name() == "heightToPath"
					})
					if q4 && !other {
						okExt = true
					} else {
						bad = true
					}
				case "removeODS", "removeODSQ4":
					bad = true
				}
			}
		}
		c.Ob("R14.3", "removeQ4 removes only the Q4 file", okExt && !bad, p.Pos(rq.Pos()), "the only path removed is hashToPath(datahash, q4 extension)")
	} else {
		c.Unresolved("R14.3", "store.removeQ4 not found")
	}
	// R14.4
	la := newLockAnalysis(p, "pruner")
	ng := la.checkGuarded(c, "R14.4", guardRule{pkgPruner, "Service", []string{"checkpoint"}, "pruner.Service.checkpointMu",
		"the checkpoint is shared by the pruning routine, the header-delete hook and Stop",
		map[string]string{"pruner.NewService": "constructor", "Service).Start": "runs before the routines are started", "Service).Stop": "runs after the pruning routine has finished (waits on doneCh)"}})
	c.Floor("R14.4", "accesses of Service.checkpoint", ng, 8)
	for _, f := range la.funcs {
		la.checkReleasedAtReturns(c, "R14.4", f)
	}
	// R14.5
	nStores := 0
	for _, f := range p.FuncsOfPkg("pruner") {
		for _, b := range f.Blocks {
			for _, ins := range b.Instrs {
				st, ok := ins.(*ssa.Store)
				if !ok {
					continue
				}
				fa, ok := st.Addr.(*ssa.FieldAddr)
				if !ok || fieldOf(fa) == nil || fieldOf(fa).Name() != "LastPrunedHeight" {
					continue
				}
				root := rootFunc(f)
				switch root.Name() {
				case "newCheckpoint", "resetCheckpoint":
					continue
				case "updateCheckpoint":
					nStores++
					c.Ob("R14.5", "LastPrunedHeight@updateCheckpoint", true, p.Pos(st.Pos()), "exception: called by the pruning round only, with the height of the last successfully pruned header of an ascending list")
					// and it is called from prune only
					continue
				}
				nStores++
				c.SawFunc(f)
				cmpCut := monotoneCut(f, st.Val)
				// from every acquisition of checkpointMu the store is reachable only across the comparison
				locks := blocksWhere(f, func(i2 ssa.Instruction) bool {
					g, ok := i2.(*ssa.Call)
					if !ok {
						return false
					}
					op := lockOpOf(g)
					return op != nil && op.acquire && strings.Contains(op.id, "checkpointMu")
				})
				if len(locks) == 0 {
					// the lock is held by the caller (checked by R14.4): the whole body is the critical section
					locks[f.Blocks[0]] = true
				}
				okAll := true
				var wit []string
				for lb := range locks {
					if lb == b {
						// acquisition and store in one block: no comparison in between
						okAll = false
						wit = []string{fmt.Sprintf("block %d holds both the acquisition and the store", b.Index)}
						continue
					}
					res := gateWalkFrom(p, f, lb, map[*ssa.BasicBlock]bool{b: true}, cmpCut, nil)
					if res.Reached {
						okAll = false
						wit = res.Witness
					}
				}
				c.Ob("R14.5", "LastPrunedHeight@"+fnName(f), okAll, p.Pos(st.Pos()),
					"from every acquisition of checkpointMu the store is reachable only across a comparison of the new height with the current LastPrunedHeight (a check made before the lock was released and re-taken does not count)", wit...)
			}
		}
	}
	c.Floor("R14.5", "stores to LastPrunedHeight outside construction/reset", nStores, 2)
	c14FailedSet(c)
	// updateCheckpoint and ResetCheckpoint callers
	for _, who := range []struct {
		name    string
		allowed []string
	}{{"updateCheckpoint", []string{"prune"}}, {"ResetCheckpoint", []string{"convertToPruned", "ConstructModule"}}} {
		for _, f := range p.SrcFuncs {
			if p.IsTestPos(rootFunc(f).Pos()) || !p.FirstParty(f) {
				continue
			}
			for _, b := range f.Blocks {
				for _, ins := range b.Instrs {
					g, ok := ins.(ssa.CallInstruction)
					if !ok || g.Common().StaticCallee() == nil || g.Common().StaticCallee().Name() != who.name || recvName(g.Common().StaticCallee()) != "Service" {
						continue
					}
					if rootFunc(g.Common().StaticCallee()).Pkg == nil || rootFunc(g.Common().StaticCallee()).Pkg.Pkg.Path() != pkgPruner {
						continue
					}
					okc := false
					for _, a := range who.allowed {
						if rootFunc(f).Name() == a {
							okc = true
						}
					}
					c.Ob("R14.5", who.name+" called from "+fnName(rootFunc(f)), okc, p.Pos(g.Pos()), fmt.Sprintf("%s is called only from %v", who.name, who.allowed))
				}
			}
		}
	}
}

// monotoneCut cuts, at every comparison of a value related to newVal with the
// current checkpoint.LastPrunedHeight, the edge on which new >= last holds.
// A walk that reaches the store without crossing such an edge found a path
// on which the height may move backwards.
func monotoneCut(fn *ssa.Function, newVal ssa.Value) EdgeCut {
	type ct struct{ t, f bool }
	cuts := map[*ssa.BasicBlock]ct{}
	newSl := backSlice(newVal, SliceOpt{CallArgs: true})
	isLast := func(v ssa.Value) bool {
		return backSlice(v, SliceOpt{}).HasFieldNamed("checkpoint", "LastPrunedHeight")
	}
	isNew := func(v ssa.Value) bool {
		sl := backSlice(v, SliceOpt{CallArgs: true})
		if sl.HasFieldNamed("checkpoint", "LastPrunedHeight") {
			return false
		}
		return sl.Has(func(x ssa.Value) bool {
			if _, ok := x.(*ssa.Const); ok {
				return false
			}
			return newSl.Vals[x]
		})
	}
	for _, b := range fn.Blocks {
		ifi, ok := b.Instrs[len(b.Instrs)-1].(*ssa.If)
		if !ok {
			continue
		}
		sn := stripNot(ifi.Cond)
		bo, ok := sn.Base.(*ssa.BinOp)
		if !ok {
			continue
		}
		// normalise to: new OP last
		op := bo.Op
		switch {
		case isNew(bo.X) && isLast(bo.Y):
		case isLast(bo.X) && isNew(bo.Y):
			switch op {
			case token.LSS:
				op = token.GTR
			case token.LEQ:
				op = token.GEQ
			case token.GTR:
				op = token.LSS
			case token.GEQ:
				op = token.LEQ
			}
		default:
			continue
		}
		var goodTrue bool
		switch op {
		case token.GTR, token.GEQ:
			goodTrue = true
		case token.LSS, token.LEQ:
			goodTrue = false
		default:
			continue
		}
		if sn.Neg {
			goodTrue = !goodTrue
		}
		cuts[b] = ct{t: goodTrue, f: !goodTrue}
	}
	return func(b *ssa.BasicBlock, ifi *ssa.If) (bool, bool) {
		c := cuts[b]
		return c.t, c.f
	}
}
