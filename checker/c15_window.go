package main

import (
	"go/token"

	"golang.org/x/tools/go/ssa"
)

// c15Window: the window predicate every storage/pruning decision goes through.
//
//	(a) in package share/availability a value produced by a call that also returns
//	    an error is returned only across that call's success edge (a failed parse
//	    of the override must not become the window: a zero window means "everything
//	    is inside");
//	(b) ResolveWindow returns only its argument or the parsed override;
//	(c) IsWithinWindow compares elapsed time (since its time argument) with the
//	    resolved window of its window argument, in the direction elapsed <= window.
func c15Window(c *Check, rule string) {
	p := c.P
	rw := p.Func("share/availability", "", "ResolveWindow")
	iw := p.Func("share/availability", "", "IsWithinWindow")
	if rw == nil || iw == nil {
		c.Unresolved(rule, "availability.ResolveWindow / IsWithinWindow not found")
		return
	}
	c.SawFunc(rw)
	c.SawFunc(iw)
	// (a)
	nGuarded := checkResultsOnlyOnSuccess(c, rule, "share/availability")
	c.Floor(rule, "error-guarded results returned in package availability", nGuarded, 1)
	// (b)
	okRW := len(returnsOf(rw)) > 0
	for _, r := range returnsOf(rw) {
		v := r.Results[0]
		if v == ssa.Value(rw.Params[0]) {
			continue
		}
		g, idx := resolveCallThroughLocals(v)
		if g != nil && idx == 0 && calleeObj(&g.Call) != nil && calleeObj(&g.Call).Name() == "ParseDuration" {
			continue
		}
		okRW = false
	}
	c.Ob(rule, "ResolveWindow returns the configured window or the parsed override", okRW, p.Pos(rw.Pos()), "every return is the parameter itself or time.ParseDuration's result")
	// (c)
	okIW := false
	var tP, wP *ssa.Parameter
	for _, pr := range iw.Params {
		if n := derefNamed(pr.Type()); n != nil && n.Obj().Name() == "Time" {
			tP = pr
		}
		if n := derefNamed(pr.Type()); n != nil && n.Obj().Name() == "Duration" {
			wP = pr
		}
	}
	for _, r := range returnsOf(iw) {
		bo, ok := r.Results[0].(*ssa.BinOp)
		if !ok {
			continue
		}
		elapsed := func(v ssa.Value) bool {
			sl := backSlice(v, SliceOpt{CallArgs: true})
			return tP != nil && sl.Vals[tP] && sl.Has(func(x ssa.Value) bool {
				k, ok := x.(*ssa.Call)
				if !ok {
					return false
				}
				o := calleeObj(&k.Call)
				return o != nil && pkgPathOf(o) == "time" && (o.Name() == "Since" || o.Name() == "Now")
			})
		}
		window := func(v ssa.Value) bool {
			sl := backSlice(v, SliceOpt{CallArgs: true})
			return wP != nil && sl.Vals[wP] && sl.Has(func(x ssa.Value) bool {
				k, ok := x.(*ssa.Call)
				return ok && k.Call.StaticCallee() == rw
			}) && !elapsed(v)
		}
		switch bo.Op {
		case token.LEQ, token.LSS:
			okIW = elapsed(bo.X) && window(bo.Y)
		case token.GEQ, token.GTR:
			okIW = elapsed(bo.Y) && window(bo.X)
		}
	}
	c.Ob(rule, "IsWithinWindow: elapsed <= resolved window", okIW, p.Pos(iw.Pos()), "the verdict compares time elapsed since the block's time with ResolveWindow(window), elapsed on the smaller side")
}
