package main

import (
	"fmt"
	"go/token"
	"go/types"
	"sort"
	"strings"

	"golang.org/x/tools/go/ssa"
)

func init() {
	register("C01", runC01,
		"Structural necessary conditions of 'verification accepts only the committed shares at the requested position', decided on the SSA of every shwap verifier (found by signature: error-returning methods taking *share.AxisRoots, plus RangeNamespaceData's root-slice verifiers). R1.1: every success return is reachable only across the success edge of a branch whose condition depends on a cryptographic comparison (nmt VerifyInclusion/VerifyNamespace, bytes.Equal, or a first-party helper whose verdict depends on one) that consumes both the trusted-roots parameter and the response; range loops over the response/roots count only if every iteration crosses such a gate. R1.2: every requested-position parameter influences a failure gate or a crypto call on every success path (position gate); for every nil-able *nmt.Proof field used with a position-bound primitive, success is reachable only across a Start()/End()-vs-request gate or a gate relating the proof's nil-ness to the request (attacker-selectable mode, R1.3). R1.3(VNI): no verifier verdict inside package shwap is ignored. R1.4: every call site of a verifier outside shwap passes roots that derive from the trusted header/root parameter and not from the response, and position arguments that derive from the request that was sent (same request object, the block's own ID, or the parameters the request was built from). Not decided: soundness of NMT/RS/hashes, arithmetic correctness of the comparisons, byte-level wire mutations.",
		"nmt.Proof.VerifyInclusion/VerifyNamespace/ComputeRootWithBasicValidation are sound for the (start,end) range carried by the proof and check End-Start == number of leaves (dependency)",
		"a branch with exactly one successor that returns a non-nil error is a rejecting check")
}

func runC01(c *Check) {
	p := c.P
	c.Rule("R1.1", "root gate: success returns only across a crypto comparison of trusted roots with the response")
	c.Rule("R1.2", "position gate: each requested-position parameter gates success; nmt proofs are range-bound to the request or their absence is justified by the request")
	c.Rule("R1.3", "no ignored verdict: every verifier/crypto verdict computed in a verifier is tested and its failure edge reaches no success return")
	c.Rule("R1.4", "caller binding: external call sites pass header-derived roots and request-derived positions")

	vs := shwapVerifiers(c, "R1.1")
	c.Floor("R1.1", "verifier methods taking trusted roots", len(vs), 5)
	ci := newCryptoInfo(p)
	for _, v := range vs {
		c.SawFunc(v.fn)
		c01RootGate(c, ci, vs, v)
		c01PositionGate(c, ci, vs, v)
		c01NoIgnoredVerdict(c, ci, vs, v)
	}
	c01CallerBinding(c, vs)
}

func c01RootGate(c *Check, ci *cryptoInfo, vs []*verifier, v *verifier) {
	p := c.P
	fn := v.fn
	ei := errResultIndex(fn)
	var targets []*ssa.Return
	for _, r := range successReturns(fn) {
		if cl := delegatesTo(r, ei); cl != nil {
			if callee := cl.Call.StaticCallee(); callee != nil {
				if dv := verifierByFn(vs, callee); dv != nil {
					// the delegate must receive our roots and our response
					as := backSliceAll(callOperands(cl), SliceOpt{CallArgs: true})
					ok := sliceHasAnyParam(as, fn, v.roots) && sliceHasAnyParam(as, fn, v.resp)
					c.Ob("R1.1", v.name()+":delegate", ok, p.Pos(r.Pos()), "success delegated to verifier "+dv.name()+" with this call's roots and response")
					continue
				}
			}
		}
		targets = append(targets, r)
	}
	if len(targets) == 0 {
		return
	}
	cut, desc := failGates(fn, ci.cryptoGateWant(v))
	loopCut, nLoops := rangeLoopExitCuts(p, fn, append(append([]int{}, v.resp...), v.roots...), cut)
	res := gateWalk(p, fn, blocksOfReturns(targets), orCuts(cut, loopCut), nil)
	if res.Overflow {
		c.Unresolved("R1.1", "state overflow in "+v.name())
		return
	}
	c.Ob("R1.1", v.name(), !res.Reached, p.Pos(fn.Pos()),
		fmt.Sprintf("%d success return(s) reachable only across %d crypto gate(s) %v (+%d fully-gated range loops)", len(targets), len(desc), desc, nLoops), res.Witness...)
}

func isNmtProofPtr(t types.Type) bool {
	pt, ok := t.(*types.Pointer)
	return ok && namedIs(pt.Elem(), pkgNmt, "Proof")
}

func c01PositionGate(c *Check, ci *cryptoInfo, vs []*verifier, v *verifier) {
	p := c.P
	fn := v.fn
	ei := errResultIndex(fn)
	var targets []*ssa.Return
	for _, r := range successReturns(fn) {
		if cl := delegatesTo(r, ei); cl != nil {
			if callee := cl.Call.StaticCallee(); callee != nil && verifierByFn(vs, callee) != nil {
				// each request parameter must be forwarded
				as := backSliceAll(callOperands(cl), SliceOpt{CallArgs: true})
				for _, q := range v.req {
					c.Ob("R1.2", v.name()+":delegate:"+fn.Params[q].Name(), as.Vals[fn.Params[q]], p.Pos(r.Pos()), "request parameter forwarded to the delegate verifier")
				}
				continue
			}
		}
		targets = append(targets, r)
	}
	if len(targets) == 0 {
		return
	}
	tg := blocksOfReturns(targets)
	// (a) every request parameter gates success: a failure gate or crypto gate whose condition depends on it
	for _, q := range v.req {
		prm := fn.Params[q]
		want := func(cond ssa.Value, sl *Slice) bool { return sl.Vals[prm] }
		cut, desc := failGates(fn, want)
		loopCut, _ := rangeLoopExitCuts(p, fn, append(append([]int{}, v.resp...), v.roots...), cut)
		res := gateWalk(p, fn, tg, orCuts(cut, loopCut), nil)
		c.Ob("R1.2", v.name()+":param:"+prm.Name(), !res.Reached && !res.Overflow, p.Pos(fn.Pos()),
			fmt.Sprintf("success only across a rejecting check that depends on request parameter %s (%d such checks)", prm.Name(), len(desc)), res.Witness...)
	}
	// (b) range binding of nil-able proof fields used with position-bound primitives
	st, ok := v.recvT.Underlying().(*types.Struct)
	if !ok {
		return
	}
	for i := 0; i < st.NumFields(); i++ {
		f := st.Field(i)
		if !isNmtProofPtr(f.Type()) {
			continue
		}
		if !c01UsesPositionBound(p, fn, f, 0) {
			continue
		}
		isStartEnd := func(x ssa.Value) bool {
			cl, ok := x.(*ssa.Call)
			if !ok {
				return false
			}
			o := calleeObj(&cl.Call)
			if o == nil || pkgPathOf(o) != pkgNmt || (o.Name() != "Start" && o.Name() != "End") || len(cl.Call.Args) == 0 {
				return false
			}
			_, isF := loadOfFieldVar(cl.Call.Args[0], f)
			return isF
		}
		isNilCmp := func(x ssa.Value) bool {
			b, ok := x.(*ssa.BinOp)
			if !ok || (b.Op != token.EQL && b.Op != token.NEQ) {
				return false
			}
			var other ssa.Value
			switch {
			case isNilConst(b.X):
				other = b.Y
			case isNilConst(b.Y):
				other = b.X
			default:
				return false
			}
			_, isF := loadOfFieldVar(other, f)
			return isF
		}
		// a first-party helper that receives the proof and a request-derived bound and rejects
		// unless proof.Start()/End() matches that bound (the check may live in the helper)
		viaHelper := func(x ssa.Value) bool {
			g, ok := x.(*ssa.Call)
			if !ok {
				return false
			}
			h := g.Call.StaticCallee()
			if h == nil || !p.FirstParty(h) || h.Blocks == nil {
				return false
			}
			for i, a := range g.Call.Args {
				_, isF := loadOfFieldVar(a, f)
				var viaField *types.Var
				if !isF {
					// a helper method of the same container: the proof travels inside the receiver
					if i != 0 || h.Signature.Recv() == nil || derefNamed(h.Signature.Recv().Type()) != v.recvT || !backSlice(a, SliceOpt{}).Vals[fn.Params[0]] {
						continue
					}
					viaField = f
				}
				for _, j := range startEndBoundParamsVia(h, i, viaField) {
					if j < len(g.Call.Args) && sliceHasAnyParam(backSlice(g.Call.Args[j], SliceOpt{CallArgs: true}), fn, v.req) {
						return true
					}
				}
			}
			return false
		}
		bindCut, bindDesc := failGates(fn, func(cond ssa.Value, sl *Slice) bool {
			if sl.Has(viaHelper) {
				return true
			}
			// binding a position means equality: an inequality (coverage) test leaves the position open
			return isEqualityTest(cond) && sliceHasAnyParam(sl, fn, v.req) && sl.Has(isStartEnd)
		})
		nilCut, nilDesc := failGates(fn, func(cond ssa.Value, sl *Slice) bool {
			return sliceHasAnyParam(sl, fn, v.req) && sl.Has(isNilCmp)
		})
		// canonical key of "field == nil" for seeding the two scenarios
		kk := newKeyer(fn)
		nilKey := ""
		for _, b := range fn.Blocks {
			for _, ins := range b.Instrs {
				if ld, ok := ins.(*ssa.UnOp); ok {
					if _, isF := loadOfFieldVar(ld, f); isF {
						if _, direct := ld.X.(*ssa.FieldAddr); direct {
							nilKey = eqKey("nil", kk.key(ld))
						}
					}
				}
				if fl, ok := ins.(*ssa.Field); ok && fieldOfVal(fl) == f {
					nilKey = eqKey("nil", kk.key(fl))
				}
			}
		}
		key := v.recvT.Obj().Name() + "." + f.Name() + "@" + fn.Name()
		if nilKey == "" || strings.Contains(nilKey, "#") {
			// no canonical key: fall back to the scenario-free form
			res := gateWalk(p, fn, tg, orCuts(bindCut, nilCut), nil)
			c.Ob("R1.2", key, !res.Reached && !res.Overflow, p.Pos(fn.Pos()),
				fmt.Sprintf("proof field %s: success only across a check binding its Start/End to the request, or relating its absence to the request (%d+%d such checks)", f.Name(), len(bindDesc), len(nilDesc)), res.Witness...)
			continue
		}
		resA := gateWalkFacts(p, fn, tg, bindCut, nil, nil, map[string]bool{nilKey: false})
		c.Ob("R1.2", key, !resA.Reached && !resA.Overflow, p.Pos(fn.Pos()),
			fmt.Sprintf("proof field %s present: success only across a rejecting check that binds its Start()/End() to the request (%d such checks, in the verifier or in a helper it hands the proof to); otherwise the responder chooses which positions the proof speaks about", f.Name(), len(bindDesc)), resA.Witness...)
		resB := gateWalkFacts(p, fn, tg, nilCut, nil, nil, map[string]bool{nilKey: true})
		c.Ob("R1.2", key+":absent", !resB.Reached && !resB.Overflow, p.Pos(fn.Pos()),
			fmt.Sprintf("proof field %s absent: success only across a rejecting check that relates its absence to the request (%d such checks) or not at all; otherwise the responder chooses how the row is verified", f.Name(), len(nilDesc)), resB.Witness...)
	}
}

// isEqualityTest: the branch condition is (a negation of) an == / != comparison.
func isEqualityTest(cond ssa.Value) bool {
	bo, ok := stripNot(cond).Base.(*ssa.BinOp)
	return ok && (bo.Op == token.EQL || bo.Op == token.NEQ)
}

// startEndBoundParams: indexes j of h's parameters such that h rejects unless
// Start()/End() of its proofIdx-th parameter matches a value derived from parameter j.
func startEndBoundParams(h *ssa.Function, proofIdx int) []int {
	return startEndBoundParamsVia(h, proofIdx, nil)
}

// startEndBoundParamsVia: as startEndBoundParams; with viaField set, the proof is the
// field viaField of the proofIdx-th parameter (a container passed as receiver).
func startEndBoundParamsVia(h *ssa.Function, proofIdx int, viaField *types.Var) []int {
	if proofIdx >= len(h.Params) {
		return nil
	}
	pp := h.Params[proofIdx]
	var out []int
	for _, b := range h.Blocks {
		ifi, ok := b.Instrs[len(b.Instrs)-1].(*ssa.If)
		if !ok || leadsToFailure(b.Succs[0], h) == leadsToFailure(b.Succs[1], h) {
			continue
		}
		sl := backSlice(ifi.Cond, SliceOpt{CallArgs: true, PhiControl: true})
		usesStartEnd := sl.Has(func(x ssa.Value) bool {
			g, ok := x.(*ssa.Call)
			if !ok {
				return false
			}
			o := calleeObj(&g.Call)
			if o == nil || pkgPathOf(o) != pkgNmt || (o.Name() != "Start" && o.Name() != "End") || len(g.Call.Args) == 0 {
				return false
			}
			if viaField != nil {
				if _, isF := loadOfFieldVar(g.Call.Args[0], viaField); !isF {
					return false
				}
			}
			return backSlice(g.Call.Args[0], SliceOpt{}).Vals[pp]
		})
		if !usesStartEnd || !isEqualityTest(ifi.Cond) {
			continue
		}
		for j, q := range h.Params {
			if j != proofIdx && sl.Vals[q] {
				out = append(out, j)
			}
		}
	}
	return out
}

func loadOfFieldVar(v ssa.Value, f *types.Var) (ssa.Value, bool) {
	switch x := v.(type) {
	case *ssa.UnOp:
		if x.Op == token.MUL {
			if fa, ok := x.X.(*ssa.FieldAddr); ok && fieldOf(fa) == f {
				return fa.X, true
			}
			// value-receiver call on a pointer field: *(*(&x.F))
			if inner, ok := x.X.(*ssa.UnOp); ok && inner.Op == token.MUL {
				return loadOfFieldVar(inner, f)
			}
			if inner, ok := x.X.(*ssa.Field); ok {
				return loadOfFieldVar(inner, f)
			}
		}
	case *ssa.Field:
		if fieldOfVal(x) == f {
			return x.X, true
		}
	}
	return nil, false
}

// c01UsesPositionBound: fn (or a first-party callee it hands the field to) calls
// VerifyInclusion / ComputeRootWithBasicValidation on field f.
func c01UsesPositionBound(p *Program, fn *ssa.Function, f *types.Var, depth int) bool {
	if depth > 2 {
		return false
	}
	for _, b := range fn.Blocks {
		for _, ins := range b.Instrs {
			cl, ok := ins.(*ssa.Call)
			if !ok {
				continue
			}
			o := calleeObj(&cl.Call)
			usesF := false
			fIdx := -1
			for i, a := range cl.Call.Args {
				if _, ok := loadOfFieldVar(a, f); ok {
					usesF = true
					fIdx = i
				}
			}
			if o != nil && pkgPathOf(o) == pkgNmt && (o.Name() == "VerifyInclusion" || o.Name() == "ComputeRootWithBasicValidation") && usesF && fIdx == 0 {
				return true
			}
			if callee := cl.Call.StaticCallee(); callee != nil && p.FirstParty(callee) && callee.Blocks != nil {
				if usesF {
					// does the callee use the corresponding parameter with a position-bound primitive?
					if paramUsesPositionBound(callee, fIdx) {
						return true
					}
				}
				// value receiver: the whole struct is passed, field extracted inside
				if len(cl.Call.Args) > 0 && callee.Signature.Recv() != nil && derefNamed(callee.Signature.Recv().Type()) != nil {
					if rn := derefNamed(callee.Signature.Recv().Type()); rn != nil && structHasField(rn, f) && callee != fn {
						if c01UsesPositionBound(p, callee, f, depth+1) {
							return true
						}
					}
				}
			}
		}
	}
	return false
}

func structHasField(n *types.Named, f *types.Var) bool {
	st, ok := n.Underlying().(*types.Struct)
	if !ok {
		return false
	}
	for i := 0; i < st.NumFields(); i++ {
		if st.Field(i) == f {
			return true
		}
	}
	return false
}

func paramUsesPositionBound(fn *ssa.Function, idx int) bool {
	if idx < 0 || idx >= len(fn.Params) {
		return false
	}
	prm := fn.Params[idx]
	for _, b := range fn.Blocks {
		for _, ins := range b.Instrs {
			cl, ok := ins.(*ssa.Call)
			if !ok {
				continue
			}
			o := calleeObj(&cl.Call)
			if o != nil && pkgPathOf(o) == pkgNmt && (o.Name() == "VerifyInclusion" || o.Name() == "ComputeRootWithBasicValidation") && len(cl.Call.Args) > 0 {
				a0 := cl.Call.Args[0]
				if u, ok := a0.(*ssa.UnOp); ok && u.Op == token.MUL {
					a0 = u.X
				}
				if a0 == prm {
					return true
				}
			}
		}
	}
	return false
}

// c01NoIgnoredVerdict: every call inside verifier v to another verifier or to a
// crypto leaf/helper that yields a verdict must be tested, and from its failure
// edge no success return may be reachable.
func c01NoIgnoredVerdict(c *Check, ci *cryptoInfo, vs []*verifier, v *verifier) {
	p := c.P
	fn := v.fn
	succ := blocksOfReturns(successReturns(fn))
	n := 0
	for _, b := range fn.Blocks {
		for _, ins := range b.Instrs {
			cl, ok := ins.(*ssa.Call)
			if !ok {
				continue
			}
			isVerdict := false
			if callee := cl.Call.StaticCallee(); callee != nil && verifierByFn(vs, callee) != nil {
				isVerdict = true
			} else if ci.callIsCrypto(cl, 0) {
				// only calls whose result type is bool or error are verdicts
				isVerdict = true
			}
			if !isVerdict {
				// any other call in a verifier that can fail: its error gates success (an error that is
				// overwritten by a later call before it is tested lets a failed step pass)
				sig := cl.Call.Signature()
				nr := sig.Results().Len()
				if nr == 0 || !isErrorType(sig.Results().At(nr-1).Type()) {
					continue
				}
				if o := calleeObj(&cl.Call); o != nil && (pkgPathOf(o) == "fmt" || pkgPathOf(o) == "errors") {
					continue
				}
				delegated := false
				for _, r := range returnsOf(fn) {
					for _, rv := range r.Results {
						if isErrorType(rv.Type()) && succ[r.Block()] && backSlice(rv, SliceOpt{}).Vals[cl] {
							delegated = true
						}
					}
				}
				if delegated {
					continue
				}
				n++
				res3 := gateWalkFrom(p, fn, cl.Block(), succ, verdictPassCut(cl, false), nil)
				c.Ob("R1.3", fmt.Sprintf("%s:call:%s:error gates success", v.name(), calleeName(cl)), !res3.Reached, p.Pos(cl.Pos()),
					"from this call, a success return is reachable only across the nil edge of a test of its own error result", res3.Witness...)
				continue
			}
			rt := cl.Type()
			if tup, ok := rt.(*types.Tuple); ok {
				if tup.Len() == 0 {
					continue
				}
				rt = tup.At(tup.Len() - 1).Type()
			}
			isBool := false
			if bt, ok := rt.Underlying().(*types.Basic); ok && bt.Kind() == types.Bool {
				isBool = true
			}
			if !isBool && !isErrorType(rt) {
				continue
			}
			n++
			key := fmt.Sprintf("%s:call:%s", v.name(), calleeName(cl))
			// returned directly?
			returned := false
			for _, r := range returnsOf(fn) {
				for _, rv := range r.Results {
					if rv == ssa.Value(cl) {
						returned = true
					}
					if ex, ok := rv.(*ssa.Extract); ok && ex.Tuple == ssa.Value(cl) {
						returned = true
					}
				}
			}
			if returned {
				c.Ob("R1.3", key, true, p.Pos(cl.Pos()), "verdict returned to the caller unchanged")
				continue
			}
			// find the branch testing it
			failStart := verdictFailureSucc(fn, cl, isBool)
			if failStart == nil {
				c.Ob("R1.3", key, false, p.Pos(cl.Pos()), "verdict is computed but never tested (ignored)")
				continue
			}
			res := gateWalk(p, fn, succ, nil, failStart)
			c.Ob("R1.3", key, !res.Reached, p.Pos(cl.Pos()), "from the failure edge of this verdict no success return is reachable", res.Witness...)
			res2 := gateWalkFrom(p, fn, cl.Block(), succ, verdictPassCut(cl, isBool), nil)
			c.Ob("R1.3", key+":not bypassed", !res2.Reached, p.Pos(cl.Pos()), "from the call, a success return is reachable only across the pass edge of the test of this verdict", res2.Witness...)
		}
	}
	_ = n
}

func calleeName(cl *ssa.Call) string {
	if o := calleeObj(&cl.Call); o != nil {
		s := o.FullName()
		return strings.ReplaceAll(s, modPath+"/", "")
	}
	return "?"
}

// verdictFailureSucc finds the If testing call cl's bool/error result and
// returns the successor taken on failure.
func verdictFailureSucc(fn *ssa.Function, cl *ssa.Call, isBool bool) *ssa.BasicBlock {
	for _, b := range fn.Blocks {
		ifi, ok := b.Instrs[len(b.Instrs)-1].(*ssa.If)
		if !ok {
			continue
		}
		if isBool {
			a := stripNot(ifi.Cond)
			if c2, _ := resolveCall(a.Base); c2 == cl {
				if a.Neg {
					return b.Succs[0]
				}
				return b.Succs[1]
			}
			continue
		}
		if x, eq, ok := nilTest(ifi.Cond); ok {
			if c2, _ := resolveCall(x); c2 == cl {
				if eq {
					return b.Succs[1]
				}
				return b.Succs[0]
			}
		}
	}
	return nil
}

// ---- R1.4 ----

type sibKey struct {
	fn  *ssa.Function
	arg int
}

type sibUse struct {
	field, site string
	pos         token.Pos
}

// argFieldName: the argument is a load of a struct field (x.F or *(&x.F)),
// possibly through a conversion; returns F's name.
func argFieldName(v ssa.Value) string {
	for i := 0; i < 4; i++ {
		switch x := v.(type) {
		case *ssa.Convert:
			v = x.X
			continue
		case *ssa.ChangeType:
			v = x.X
			continue
		case *ssa.UnOp:
			if x.Op == token.MUL {
				if fa, ok := x.X.(*ssa.FieldAddr); ok && fieldOf(fa) != nil {
					return fieldOf(fa).Name()
				}
			}
		case *ssa.Field:
			if f := fieldOfVal(x); f != nil {
				return f.Name()
			}
		}
		break
	}
	return ""
}

func c01CallerBinding(c *Check, vs []*verifier) {
	p := c.P
	n := 0
	sib := map[sibKey][]sibUse{}
	for _, f := range p.SrcFuncs {
		root := rootFunc(f)
		if root.Pkg == nil || p.IsTestPos(root.Pos()) {
			continue
		}
		pp := root.Pkg.Pkg.Path()
		if pp == pkgShwap || isTestSupportPkg(pp) || strings.HasSuffix(p.Fset.Position(root.Pos()).Filename, "testing.go") {
			continue
		}
		for _, b := range f.Blocks {
			for _, ins := range b.Instrs {
				cl, ok := ins.(*ssa.Call)
				if !ok {
					continue
				}
				callee := cl.Call.StaticCallee()
				if callee == nil {
					continue
				}
				v := verifierByFn(vs, callee)
				if v == nil {
					continue
				}
				n++
				c.callSites++
				c.SawFunc(f)
				c01CheckCallSite(c, f, cl, v)
				for _, qi := range v.req {
					if fname := argFieldName(cl.Call.Args[qi]); fname != "" {
						k := sibKey{v.fn, qi}
						sib[k] = append(sib[k], sibUse{fname, fnName(f), cl.Pos()})
					}
				}
			}
		}
	}
	// sibling agreement: all call sites of one verifier read a given position
	// argument from the same-named field of their request object
	var keys []sibKey
	for k := range sib {
		keys = append(keys, k)
	}
	sort.Slice(keys, func(i, j int) bool {
		if keys[i].fn != keys[j].fn {
			return keys[i].fn.String() < keys[j].fn.String()
		}
		return keys[i].arg < keys[j].arg
	})
	for _, k := range keys {
		uses := sib[k]
		names := map[string]int{}
		for _, u := range uses {
			names[u.field]++
		}
		if len(uses) < 2 {
			continue
		}
		for _, u := range uses {
			agree := len(names) == 1
			c.Ob("R1.4", fmt.Sprintf("%s->%s:arg%d:sibling", u.site, k.fn.Name(), k.arg), agree, p.Pos(u.pos),
				fmt.Sprintf("argument %d (%s) is read from request field %q; sibling call sites use %v", k.arg, k.fn.Params[k.arg].Name(), u.field, names))
		}
	}
	c.Floor("R1.4", "verifier call sites outside shwap", n, 8)
}

func isHeaderPtr(t types.Type) bool { return namedIs(t, modPath+"/header", "ExtendedHeader") }

func c01CheckCallSite(c *Check, f *ssa.Function, cl *ssa.Call, v *verifier) {
	c01CheckCallSiteRule(c, "R1.4", f, cl, v)
}

func c01CheckCallSiteRule(c *Check, rule string, f *ssa.Function, cl *ssa.Call, v *verifier) {
	p := c.P
	opt := SliceOpt{CallArgs: true, ThroughFreeVars: true, NoAddrCallArgs: true}
	key := fnName(f) + "->" + v.fn.Name()
	recv := cl.Call.Args[0]
	recvBase := valueBase(recv)
	// (i) roots
	for _, ri := range v.roots {
		sl := backSlice(cl.Call.Args[ri], opt)
		trusted := sl.Has(func(x ssa.Value) bool {
			switch y := x.(type) {
			case *ssa.Parameter:
				return isHeaderPtr(y.Type()) || isAxisRootsPtr(y.Type())
			case *ssa.FreeVar:
				t := y.Type()
				if pt, ok := t.(*types.Pointer); ok {
					t = pt.Elem()
				}
				return isHeaderPtr(t) || isAxisRootsPtr(t)
			}
			return false
		})
		// must not depend on the response object: no allocation/decoder result shared with the receiver
		tainted := recvBase != nil && sl.Vals[recvBase]
		c.Ob(rule, key+":roots", trusted && !tainted, p.Pos(cl.Pos()), "roots argument derives from the trusted header/root parameter and not from the response")
	}
	// (ii) request binding
	reqRoots := requestRootsFor(p, f, cl)
	for _, qi := range v.req {
		arg := cl.Call.Args[qi]
		sl := backSlice(arg, opt)
		ok, why := false, ""
		// depends on response?
		if recvBase != nil && sl.Vals[recvBase] {
			why = "position argument depends on the response"
		}
		if why == "" {
			switch {
			case reqRoots == nil || (len(reqRoots.objs) == 0 && len(reqRoots.params) == 0):
				why = "cannot identify the request this call site verifies against"
			default:
				direct := false
				for x := range sl.Vals {
					if reqRoots.objs[x] {
						direct = true
					}
				}
				if direct {
					ok, why = true, "position argument is read from the request object "+reqRoots.desc
				} else {
					ps := outerParamsIn(sl)
					sub := len(ps) > 0
					for q := range ps {
						if isHeaderPtr(q.Type()) || isAxisRootsPtr(q.Type()) {
							continue // sizes derived from the trusted roots are fine
						}
						if !reqRoots.params[q] {
							sub = false
							why = "position argument uses parameter " + q.Name() + " that the request was not built from"
						}
					}
					if sub {
						ok, why = true, "position argument derives only from parameters the request "+reqRoots.desc+" was built from"
					} else if why == "" {
						why = "position argument has no link to the request"
					}
				}
			}
		}
		c.Ob(rule, fmt.Sprintf("%s:arg%d", key, qi), ok, p.Pos(cl.Pos()), why)
	}
}

// valueBase follows address arithmetic (not stores) from a value to the
// allocation, call or parameter it lives in.
func valueBase(v ssa.Value) ssa.Value {
	for i := 0; i < 12 && v != nil; i++ {
		switch x := v.(type) {
		case *ssa.UnOp:
			if x.Op != token.MUL {
				return x
			}
			v = x.X
		case *ssa.FieldAddr:
			v = x.X
		case *ssa.Field:
			v = x.X
		case *ssa.IndexAddr:
			v = x.X
		case *ssa.Index:
			v = x.X
		case *ssa.Extract:
			v = x.Tuple
		case *ssa.FreeVar:
			fn := x.Parent()
			idx := -1
			for i, fv := range fn.FreeVars {
				if fv == x {
					idx = i
				}
			}
			par := fn.Parent()
			if par == nil || idx < 0 {
				return x
			}
			mcs := makeClosuresOf(par, fn)
			if len(mcs) != 1 || idx >= len(mcs[0].Bindings) {
				return x
			}
			v = mcs[0].Bindings[idx]
		default:
			return x
		}
	}
	return v
}

// isResponseRoot: allocation sites that hold decoded responses.
func isResponseRoot(x ssa.Value) bool {
	switch y := x.(type) {
	case *ssa.Alloc:
		return true
	case *ssa.MakeSlice:
		return true
	case *ssa.Call:
		if o := calleeObj(&y.Call); o != nil && strings.HasSuffix(o.Name(), "FromProto") {
			return true
		}
	}
	return false
}

func outerParamsIn(sl *Slice) map[*ssa.Parameter]bool {
	out := map[*ssa.Parameter]bool{}
	for x := range sl.Vals {
		if pm, ok := x.(*ssa.Parameter); ok {
			if _, isCtx := pm.Type().(*types.Named); isCtx && pm.Type().String() == "context.Context" {
				continue
			}
			out[pm] = true
		}
	}
	return out
}

type reqRootInfo struct {
	objs   map[ssa.Value]bool // the request object(s): allocations / ID field loads
	params map[*ssa.Parameter]bool
	desc   string
}

// requestRootsFor identifies "the request that was sent" for a verifier call site:
//   - shrex getter: the verify closure's sibling request closure passes &request to
//     (*shrex.Client).Get; the request object is that allocation and the
//     parameters are those it was constructed from;
//   - bitswap: inside a Block's UnmarshalFn closure the request is the block's own
//     ID field (what CID() encodes), provided the closure compares it with the
//     decoded id via Equals.
func requestRootsFor(p *Program, f *ssa.Function, cl *ssa.Call) *reqRootInfo {
	info := &reqRootInfo{objs: map[ssa.Value]bool{}, params: map[*ssa.Parameter]bool{}}
	opt := SliceOpt{CallArgs: true, ThroughFreeVars: true, NoAddrCallArgs: true}
	asClosure := func(a ssa.Value) *ssa.MakeClosure {
		if ct, ok := a.(*ssa.ChangeType); ok {
			a = ct.X
		}
		mc, _ := a.(*ssa.MakeClosure)
		return mc
	}
	// bitswap shape: closure with a FreeVar whose type has fields ID and Container
	for _, fv := range f.FreeVars {
		t := fv.Type()
		for i := 0; i < 2; i++ {
			if pt, ok := t.(*types.Pointer); ok {
				t = pt.Elem()
			}
		}
		n, _ := t.(*types.Named)
		if n == nil {
			continue
		}
		st, ok := n.Underlying().(*types.Struct)
		if !ok {
			continue
		}
		hasID, hasC := false, false
		for i := 0; i < st.NumFields(); i++ {
			if st.Field(i).Name() == "ID" {
				hasID = true
			}
			if st.Field(i).Name() == "Container" {
				hasC = true
			}
		}
		if !hasID || !hasC {
			continue
		}
		// all FieldAddr(ID) on loads of this free var, and anything proven equal to it
		for _, b := range f.Blocks {
			for _, ins := range b.Instrs {
				if fa, ok := ins.(*ssa.FieldAddr); ok && fieldOf(fa) != nil && fieldOf(fa).Name() == "ID" {
					sl := backSlice(fa.X, opt)
					if sl.Vals[fv] {
						info.objs[fa] = true
					}
				}
			}
		}
		// Equals-aliases: x such that ID.Equals(x) success edge dominates the call site
		for _, b := range f.Blocks {
			ifi, ok := b.Instrs[len(b.Instrs)-1].(*ssa.If)
			if !ok {
				continue
			}
			a := stripNot(ifi.Cond)
			ec, ok := a.Base.(*ssa.Call)
			if !ok {
				continue
			}
			if o := calleeObj(&ec.Call); o == nil || o.Name() != "Equals" || len(ec.Call.Args) != 2 {
				continue
			}
			recvSl := backSlice(ec.Call.Args[0], opt)
			isID := false
			for x := range recvSl.Vals {
				if info.objs[x] {
					isID = true
				}
			}
			if !isID {
				continue
			}
			succ := b.Succs[0]
			if a.Neg {
				succ = b.Succs[1]
			}
			if len(succ.Preds) == 1 && succ.Dominates(cl.Block()) {
				// the compared value is an alias of the requested ID
				for x := range backSlice(ec.Call.Args[1], SliceOpt{}).Vals {
					switch x.(type) {
					case *ssa.Alloc, *ssa.Extract, *ssa.Call:
						info.objs[x] = true
					}
				}
			}
		}
		info.desc = "(the block's own ID)"
		if len(info.objs) > 0 {
			return info
		}
	}
	// shrex shape: find executeRequest(..., req, verify) in an ancestor where verify == f (or f's ancestor)
	for anc := f; anc != nil; anc = anc.Parent() {
		par := anc.Parent()
		if par == nil {
			break
		}
		for _, b := range par.Blocks {
			for _, ins := range b.Instrs {
				call, ok := ins.(*ssa.Call)
				if !ok {
					continue
				}
				var verifyIdx = -1
				for i, a := range call.Call.Args {
					if mc := asClosure(a); mc != nil && mc.Fn == anc {
						verifyIdx = i
					}
				}
				if verifyIdx < 0 {
					continue
				}
				// sibling closures passed to the same call
				for _, a := range call.Call.Args {
					mc := asClosure(a)
					if mc == nil || mc.Fn == anc {
						continue
					}
					reqFn := mc.Fn.(*ssa.Function)
					for _, rb := range reqFn.Blocks {
						for _, rins := range rb.Instrs {
							gc, ok := rins.(ssa.CallInstruction)
							if !ok {
								continue
							}
							o := calleeObj(gc.Common())
							if !objIs(o, modPath+"/share/shwap/p2p/shrex", "Client", "Get") {
								continue
							}
							// args: recv, ctx, req, resp, peer
							reqArg := gc.Common().Args[2]
							rs := backSlice(reqArg, opt)
							for x := range rs.Vals {
								switch x.(type) {
								case *ssa.Alloc:
									info.objs[x] = true
								}
							}
							for pm := range outerParamsIn(rs) {
								info.params[pm] = true
							}
							info.desc = "(sent via shrex.Client.Get)"
						}
					}
				}
			}
		}
		if len(info.objs) > 0 {
			return info
		}
	}
	return info
}

// verdictPassCut cuts the pass edge of tests of this call's verdict (bool result
// true, or error result nil): a walk from the call that still reaches success
// found a way around the test.
func verdictPassCut(theCall *ssa.Call, isBool bool) EdgeCut {
	return callGates(func(k *ssa.Call, idx int) GateKind {
		if k != theCall {
			return NotGate
		}
		if isBool {
			if _, isTuple := theCall.Type().(*types.Tuple); !isTuple || idx == 0 {
				return GateTrue
			}
			return NotGate
		}
		return GateErr
	})
}
