package main

import (
	"fmt"
	"go/token"
	"go/types"
	"strings"

	"golang.org/x/tools/go/ssa"
)

func init() {
	register("C12", runC12,
		"Structural necessary conditions of 'proofs verify only for what they claim and malformed input is an error, not a panic', on the proof-checking surface (blob.Proof.equal, CommitmentProof.Validate/Verify, GetRangeResult.Verify, blob.Service.Included, the blobstream entry points). R12.1a UNTRUSTED index discipline: an element access s[i] where i is the induction variable of a range loop over a different sequence t is reachable only across a rejecting comparison of len(s) with len(t) (in the function itself or in a validation method of the same receiver that gates the function). R12.1b nil discipline: a pointer taken from an attacker-supplied container (element of a slice argument/field, pointer field of the receiver) is dereferenced only across a rejecting nil test of that pointer (or behind a gating validation method that rejects nil elements of that field). R12.2: in CommitmentProof.Verify and GetRangeResult.Verify every argument (data root, commitment) gates every success return, and no verdict of a cryptographic sub-check is ignored. R12.3 blobstream: the tuples are fetched and proven only across the success edge of the request validation, called with the same range arguments. R12.4 Included: the verdict true is returned only across the comparison of the node's own proof (retrieve result) with the supplied one. Not decided: completeness (every producible proof verifies), cryptographic soundness, JSON byte-level mutation.",
		"nmt/cometbft proof primitives are sound and do not panic on well-formed non-nil inputs (dependencies)")
}

func runC12(c *Check) {
	p := c.P
	c.Rule("R12.1a", "cross-sequence indexing only behind a length relation")
	c.Rule("R12.1b", "untrusted pointers dereferenced only behind a nil test")
	c.Rule("R12.2", "every verification argument gates success; no sub-verdict ignored")
	c.Rule("R12.3", "blobstream: fetch/prove only behind request validation with the same arguments")
	c.Rule("R12.4", "Included compares the node's own proof with the supplied one before answering true")
	var surface []*ssa.Function
	add := func(rel, recv, name string) *ssa.Function {
		f := p.Func(rel, recv, name)
		if f == nil {
			c.Unresolved("R12.1", rel+"."+recv+"."+name+" not found")
			return nil
		}
		surface = append(surface, f)
		c.SawFunc(f)
		return f
	}
	equal := add("blob", "Proof", "equal")
	cpValidate := add("blob", "CommitmentProof", "Validate")
	cpVerify := add("blob", "CommitmentProof", "Verify")
	grVerify := add("nodebuilder/share", "GetRangeResult", "Verify")
	if equal == nil || cpValidate == nil || cpVerify == nil || grVerify == nil {
		return
	}
	nIdx, nNil := 0, 0
	for _, f := range surface {
		nIdx += c12CrossIndex(c, f, surface)
		nNil += c12NilDiscipline(c, f, surface)
	}
	c.Floor("R12.1a", "cross-sequence index sites on the surface", nIdx, 3)
	c.Floor("R12.1b", "untrusted pointer dereference groups on the surface", nNil, 3)
	// R12.2
	for _, f := range []*ssa.Function{cpVerify, grVerify} {
		succ := blocksOfReturns(successReturns(f))
		ei := errResultIndex(f)
		for i, prm := range f.Params {
			if i == 0 {
				continue
			}
			// delegating success returns `return x.Validate(param)` count as gated by that parameter
			tg := map[*ssa.BasicBlock]bool{}
			for _, r := range successReturns(f) {
				if cl := delegatesTo(r, ei); cl != nil && backSliceAll(callOperands(cl), SliceOpt{}).Vals[prm] {
					continue
				}
				tg[r.Block()] = true
			}
			cut, desc := failGates(f, func(cond ssa.Value, sl *Slice) bool { return sl.Vals[prm] })
			loopCut, _ := rangeLoopExitCuts(p, f, []int{0}, cut)
			res := gateWalk(p, f, tg, orCuts(cut, loopCut), nil)
			c.Ob("R12.2", f.Name()+"@"+recvName(f)+":param:"+prm.Name(), !res.Reached, p.Pos(f.Pos()),
				fmt.Sprintf("success only across a rejecting check that depends on %s (%d such checks)", prm.Name(), len(desc)), res.Witness...)
		}
		_ = succ
		c12NoIgnoredVerdict(c, f)
	}
	c12Blobstream(c)
	c12Included(c, equal)
	c12ValidateBeforeVerify(c)
	// R12.5: the share-range proof handed to clients is built from RangeNamespaceData that passed
	// VerifyInclusion: the position-binding rules of C01 (R1.2) for those verifiers are part of C12
	c.Rule("R12.5", "share-range verification binds proof positions to the requested range (C01 R1.2 on RangeNamespaceData)")
	vs := shwapVerifiers(c, "R12.5")
	sub := newCheck(c.Prop, c.Tier, p)
	ci := newCryptoInfo(p)
	n := 0
	for _, v := range vs {
		if v.recvT.Obj().Name() != "RangeNamespaceData" {
			continue
		}
		n++
		c.SawFunc(v.fn)
		c01PositionGate(sub, ci, vs, v)
		c01RootGate(sub, ci, vs, v)
	}
	c.Floor("R12.5", "RangeNamespaceData verifiers", n, 3)
	for _, f := range sub.findings {
		c.Ob("R12.5", f.Construct, false, f.Pos, f.Msg, f.Path...)
	}
	if len(sub.findings) == 0 {
		c.Ob("R12.5", "range verifiers", true, "-", fmt.Sprintf("%d position/root-gate obligations evaluated on %d RangeNamespaceData verifiers", sub.evals, n))
	}
}

// c12ValidateBeforeVerify: protocol of the RowProof/ShareProof dependency types -
// VerifyProof is meaningful only on a value whose Validate succeeded (Validate
// establishes EndRow >= StartRow and non-empty, consistent component lists).
func c12ValidateBeforeVerify(c *Check) {
	p := c.P
	sites := 0
	for _, f := range p.SrcFuncs {
		if p.IsTestPos(rootFunc(f).Pos()) || !p.FirstParty(f) {
			continue
		}
		if r := rootFunc(f); r.Pkg != nil && isTestSupportPkg(r.Pkg.Pkg.Path()) {
			continue
		}
		for _, b := range f.Blocks {
			for _, ins := range b.Instrs {
				g, ok := ins.(*ssa.Call)
				if !ok {
					continue
				}
				o := calleeObj(&g.Call)
				if o == nil || o.Name() != "VerifyProof" || recvNamed(o) == nil || recvNamed(o).Obj().Name() != "RowProof" {
					continue
				}
				sites++
				c.SawFunc(f)
				path := fieldPathKey(g.Call.Args[0])
				cut := callGates(func(v *ssa.Call, _ int) GateKind {
					vo := calleeObj(&v.Call)
					if vo == nil || vo.Name() != "Validate" || recvNamed(vo) == nil || recvNamed(vo).Obj().Name() != "RowProof" {
						return NotGate
					}
					// the validated value is (a copy of) the verified one: same field path, or the same local
					vp := fieldPathKey(v.Call.Args[0])
					if vp != "" && vp == path {
						return GateErr
					}
					vs := backSlice(v.Call.Args[0], SliceOpt{})
					same := false
					for x := range backSlice(g.Call.Args[0], SliceOpt{}).Vals {
						if _, isAlloc := x.(*ssa.Alloc); isAlloc && vs.Vals[x] {
							same = true
						}
						if fa, ok := x.(*ssa.FieldAddr); ok && fieldOf(fa) != nil {
							for y := range vs.Vals {
								if fb, ok := y.(*ssa.FieldAddr); ok && fieldOf(fb) == fieldOf(fa) {
									same = true
								}
							}
						}
					}
					if same {
						return GateErr
					}
					return NotGate
				})
				res := gateWalk(p, f, map[*ssa.BasicBlock]bool{b: true}, cut, nil)
				c.Ob("R12.2", "RowProof.VerifyProof after Validate@"+fnName(f), !res.Reached, p.Pos(g.Pos()),
					"RowProof.VerifyProof is reached only across the success edge of RowProof.Validate on the same proof (Validate rejects inverted/empty row ranges that make every verification loop vacuous)", res.Witness...)
			}
		}
	}
	c.Floor("R12.2", "first-party RowProof.VerifyProof call sites", sites, 1)
}

func recvName(f *ssa.Function) string {
	if f.Signature.Recv() == nil {
		return ""
	}
	if n := derefNamed(f.Signature.Recv().Type()); n != nil {
		return n.Obj().Name()
	}
	return ""
}

// seqKey canonicalises the sequence a len()/index operates on.
func seqKey(k *keyer, v ssa.Value) string {
	s := k.key(v)
	return s
}

// lenOperands returns the canonical keys of sequences whose lengths are compared
// in cond (builtin len, or a Len() method whose body returns len(receiver)).
func lenOperandKeys(p *Program, k *keyer, cond ssa.Value) []string {
	var out []string
	sl := backSlice(cond, SliceOpt{CallArgs: true, PhiControl: true})
	for v := range sl.Vals {
		g, ok := v.(*ssa.Call)
		if !ok {
			continue
		}
		if isLenCall(g) {
			out = append(out, k.key(g.Call.Args[0]))
			continue
		}
		if callee := g.Call.StaticCallee(); callee != nil && callee.Name() == "Len" && len(g.Call.Args) == 1 && p.FirstParty(callee) {
			rets := returnsOf(callee)
			if len(rets) == 1 && isLenCall(rets[0].Results[0]) {
				out = append(out, k.key(g.Call.Args[0]))
			}
		}
	}
	return out
}

func stripToSeq(v ssa.Value) ssa.Value {
	// s[i] on a slice: IndexAddr.X is the slice value
	return v
}

// c12CrossIndex: index accesses whose index is the induction variable of a range
// loop over another sequence.
func c12CrossIndex(c *Check, f *ssa.Function, surface []*ssa.Function) int {
	p := c.P
	k := newKeyer(f)
	n := 0
	// rangeindex loops: header block comment, phi named rangeindex; the iterated sequence is the arg of the len in the loop test
	type rloop struct {
		idx *ssa.BinOp // t14 = phi + 1
		seq ssa.Value
	}
	var loops []rloop
	for _, b := range f.Blocks {
		if b.Comment != "rangeindex.loop" {
			continue
		}
		ifi, ok := b.Instrs[len(b.Instrs)-1].(*ssa.If)
		if !ok {
			continue
		}
		bo, ok := ifi.Cond.(*ssa.BinOp)
		if !ok || bo.Op != token.LSS {
			continue
		}
		inc, ok := bo.X.(*ssa.BinOp)
		if !ok {
			continue
		}
		if lc, ok := bo.Y.(*ssa.Call); ok && isLenCall(lc) {
			loops = append(loops, rloop{inc, lc.Call.Args[0]})
		}
	}
	for _, b := range f.Blocks {
		for _, ins := range b.Instrs {
			var seq, idx ssa.Value
			switch x := ins.(type) {
			case *ssa.IndexAddr:
				seq, idx = x.X, x.Index
			case *ssa.Index:
				seq, idx = x.X, x.Index
			default:
				continue
			}
			for _, l := range loops {
				if idx != ssa.Value(l.idx) || seq == l.seq {
					continue
				}
				ks, kt := k.key(seq), k.key(l.seq)
				if ks == kt {
					continue // the loop's own sequence
				}
				n++
				// gates relating len(seq) and len(loop seq)
				related := func(fn *ssa.Function, kk *keyer, a, bkey string) EdgeCut {
					cut, _ := failGates(fn, func(cond ssa.Value, sl *Slice) bool {
						keys := lenOperandKeys(p, kk, cond)
						ha, hb := false, false
						for _, x := range keys {
							if x == a {
								ha = true
							}
							if x == bkey {
								hb = true
							}
						}
						return ha && hb
					})
					return cut
				}
				cut := related(f, k, ks, kt)
				// or a gating validation method of the same receiver relating the same fields (possibly transitively through a third field)
				valCut := callGates(func(g *ssa.Call, _ int) GateKind {
					callee := g.Call.StaticCallee()
					if callee == nil || callee.Signature.Recv() == nil || len(f.Params) == 0 || len(g.Call.Args) == 0 || g.Call.Args[0] != ssa.Value(f.Params[0]) {
						return NotGate
					}
					if lengthsEquatedBy(p, callee, fieldPathKey(seq), fieldPathKey(l.seq)) {
						return GateErr
					}
					return NotGate
				})
				res := gateWalk(p, f, map[*ssa.BasicBlock]bool{b: true}, orCuts(cut, valCut), nil)
				c.Ob("R12.1a", fmt.Sprintf("%s.%s: %s[i] with i over %s", recvName(f), f.Name(), descSeq(seq), descSeq(l.seq)), !res.Reached, p.Pos(ins.Pos()),
					"the element access is reachable only across a rejecting comparison of the two lengths (otherwise a shorter sequence panics and a longer one is silently accepted)", res.Witness...)
			}
		}
	}
	return n
}

// descSeq gives a stable, address-free description of a sequence value.
func descSeq(v ssa.Value) string {
	if fp := fieldPathKey(v); fp != "" {
		return fp
	}
	switch x := v.(type) {
	case *ssa.Parameter:
		return x.Name()
	case *ssa.Call:
		if o := calleeObj(&x.Call); o != nil {
			if len(x.Call.Args) > 0 {
				return o.Name() + "(" + descSeq(x.Call.Args[0]) + ")"
			}
			return o.Name() + "()"
		}
	case *ssa.UnOp:
		return descSeq(x.X)
	case *ssa.IndexAddr:
		return descSeq(x.X) + "[]"
	case *ssa.Alloc:
		return x.Comment
	case *ssa.Phi:
		return x.Comment
	}
	return v.Name()
}

func shortKey(s string) string {
	s = strings.ReplaceAll(s, "spill:", "")
	s = strings.ReplaceAll(s, "p:", "")
	if len(s) > 60 {
		s = s[:60]
	}
	return s
}

// fieldPathKey names a sequence by the chain of field names it is loaded through.
func fieldPathKey(v ssa.Value) string {
	var parts []string
	for i := 0; i < 8; i++ {
		switch x := v.(type) {
		case *ssa.UnOp:
			v = x.X
			continue
		case *ssa.FieldAddr:
			if f := fieldOf(x); f != nil {
				parts = append([]string{f.Name()}, parts...)
			}
			v = x.X
			continue
		case *ssa.Field:
			if f := fieldOfVal(x); f != nil {
				parts = append([]string{f.Name()}, parts...)
			}
			v = x.X
			continue
		}
		break
	}
	return strings.Join(parts, ".")
}

// lengthsEquatedBy: validation method fn rejects unless len(a) == len(b), where a
// and b are field paths of the receiver; equalities are closed transitively.
func lengthsEquatedBy(p *Program, fn *ssa.Function, a, b string) bool {
	if fn == nil || fn.Blocks == nil || a == "" || b == "" {
		return false
	}
	parent := map[string]string{}
	var find func(string) string
	find = func(x string) string {
		if parent[x] == "" || parent[x] == x {
			parent[x] = x
			return x
		}
		r := find(parent[x])
		parent[x] = r
		return r
	}
	for _, blk := range fn.Blocks {
		ifi, ok := blk.Instrs[len(blk.Instrs)-1].(*ssa.If)
		if !ok {
			continue
		}
		bo, ok := stripNot(ifi.Cond).Base.(*ssa.BinOp)
		if !ok || bo.Op != token.NEQ {
			continue
		}
		// rejecting on inequality
		if !leadsToFailure(blk.Succs[0], fn) {
			continue
		}
		lx, ok1 := bo.X.(*ssa.Call)
		ly, ok2 := bo.Y.(*ssa.Call)
		if !ok1 || !ok2 || !isLenCall(lx) || !isLenCall(ly) {
			continue
		}
		ka, kb := fieldPathKey(lx.Call.Args[0]), fieldPathKey(ly.Call.Args[0])
		if ka != "" && kb != "" {
			parent[find(ka)] = find(kb)
		}
	}
	return find(a) == find(b)
}

// c12NilDiscipline: dereferences of pointers that come out of attacker-supplied
// containers.
func c12NilDiscipline(c *Check, f *ssa.Function, surface []*ssa.Function) int {
	p := c.P
	n := 0
	seen := map[ssa.Value]bool{}
	for _, b := range f.Blocks {
		for _, ins := range b.Instrs {
			ld, ok := ins.(*ssa.UnOp)
			if !ok || ld.Op != token.MUL {
				continue
			}
			ptr := ld.X
			// ptr must itself be a loaded value of pointer type (element or field), not an address computation
			pl, ok := ptr.(*ssa.UnOp)
			if !ok || pl.Op != token.MUL {
				continue
			}
			if _, isPtr := pl.Type().Underlying().(*types.Pointer); !isPtr {
				continue
			}
			// provenance: element of a slice or a pointer field reachable from a parameter (incl. receiver)
			src := ""
			switch a := pl.X.(type) {
			case *ssa.IndexAddr:
				src = "element of " + descSeq(a.X)
			case *ssa.FieldAddr:
				if fv := fieldOf(a); fv != nil {
					src = "field " + fv.Name()
				}
			default:
				continue
			}
			base := backSlice(pl, SliceOpt{})
			fromParam := false
			for _, prm := range f.Params {
				if base.Vals[prm] {
					fromParam = true
				}
			}
			if !fromParam || seen[pl] {
				continue
			}
			// the receiver's own elements of a node-produced proof are trusted only in Proof.equal (p is the node's proof)
			if f.Name() == "equal" && len(f.Params) > 0 && base.Vals[f.Params[0]] && !base.Vals[f.Params[1]] {
				continue
			}
			seen[pl] = true
			n++
			kk := newKeyer(f)
			plKey := kk.key(pl)
			nilCut := func(bb *ssa.BasicBlock, ifi *ssa.If) (bool, bool) {
				x, eq, ok := nilTest(ifi.Cond)
				if !ok {
					return false, false
				}
				// the same pointer: the same SSA value, or another load of the same never-reassigned field
				if x != ssa.Value(pl) && (strings.Contains(plKey, "#") || kk.key(x) != plKey) {
					return false, false
				}
				// the nil side must reject
				nilSucc := bb.Succs[0]
				if !eq {
					nilSucc = bb.Succs[1]
				}
				if !leadsToFailure(nilSucc, f) {
					return false, false
				}
				// cut the non-nil edge
				return !eq, eq
			}
			valCut := callGates(func(g *ssa.Call, _ int) GateKind {
				callee := g.Call.StaticCallee()
				if callee == nil || callee.Signature.Recv() == nil || len(g.Call.Args) == 0 || g.Call.Args[0] != ssa.Value(f.Params[0]) {
					return NotGate
				}
				if fa, ok := pl.X.(*ssa.IndexAddr); ok {
					if rejectsNilElements(callee, fieldPathKey(fa.X)) {
						return GateErr
					}
				}
				return NotGate
			})
			res := gateWalk(p, f, map[*ssa.BasicBlock]bool{b: true}, orCuts(nilCut, valCut), nil)
			c.Ob("R12.1b", fmt.Sprintf("%s.%s: deref of %s", recvName(f), f.Name(), src), !res.Reached, p.Pos(ld.Pos()),
				"the untrusted pointer is dereferenced only across a rejecting nil test (a nil element in client-supplied JSON otherwise panics the node)", res.Witness...)
		}
	}
	return n
}

// rejectsNilElements: fn ranges over the receiver field path and rejects nil elements.
func rejectsNilElements(fn *ssa.Function, path string) bool {
	if fn == nil || fn.Blocks == nil || path == "" {
		return false
	}
	for _, b := range fn.Blocks {
		ifi, ok := b.Instrs[len(b.Instrs)-1].(*ssa.If)
		if !ok {
			continue
		}
		x, eq, ok := nilTest(ifi.Cond)
		if !ok {
			continue
		}
		ld, ok := x.(*ssa.UnOp)
		if !ok {
			continue
		}
		ia, ok := ld.X.(*ssa.IndexAddr)
		if !ok || fieldPathKey(ia.X) != path {
			continue
		}
		nilSucc := b.Succs[0]
		if !eq {
			nilSucc = b.Succs[1]
		}
		if leadsToFailure(nilSucc, fn) {
			return true
		}
	}
	return false
}

func c12NoIgnoredVerdict(c *Check, fn *ssa.Function) {
	p := c.P
	succ := blocksOfReturns(successReturns(fn))
	for _, b := range fn.Blocks {
		for _, ins := range b.Instrs {
			cl, ok := ins.(*ssa.Call)
			if !ok {
				continue
			}
			o := calleeObj(&cl.Call)
			if o == nil {
				continue
			}
			isVerdict := isCryptoLeaf(o) || (o.Name() == "VerifyProof" || o.Name() == "Validate" || o.Name() == "VerifySubtreeRootInclusion") && !strings.HasPrefix(pkgPathOf(o), "fmt")
			if !isVerdict {
				continue
			}
			rt := cl.Type()
			isBool := false
			var verdictVal ssa.Value = cl
			if tup, ok := rt.(*types.Tuple); ok {
				// (bool, error): both are verdicts; check the bool
				if tup.Len() == 2 {
					for _, ref := range *cl.Referrers() {
						if ex, ok := ref.(*ssa.Extract); ok && ex.Index == 0 {
							verdictVal = ex
						}
					}
					rt = tup.At(0).Type()
				}
			}
			if bt, ok := rt.Underlying().(*types.Basic); ok && bt.Kind() == types.Bool {
				isBool = true
			}
			if !isBool && !isErrorType(rt) {
				continue
			}
			key := fmt.Sprintf("%s.%s:call:%s", recvName(fn), fn.Name(), o.Name())
			returned := false
			for _, r := range returnsOf(fn) {
				for _, rv := range r.Results {
					if rv == verdictVal {
						returned = true
					}
				}
			}
			if returned {
				c.Ob("R12.2", key, true, p.Pos(cl.Pos()), "verdict returned to the caller unchanged")
				continue
			}
			var failStart *ssa.BasicBlock
			for _, bb := range fn.Blocks {
				ifi, ok := bb.Instrs[len(bb.Instrs)-1].(*ssa.If)
				if !ok {
					continue
				}
				if isBool {
					a := stripNot(ifi.Cond)
					if a.Base == verdictVal {
						if a.Neg {
							failStart = bb.Succs[0]
						} else {
							failStart = bb.Succs[1]
						}
					}
				} else if x, eq, ok := nilTest(ifi.Cond); ok && x == verdictVal {
					if eq {
						failStart = bb.Succs[1]
					} else {
						failStart = bb.Succs[0]
					}
				}
			}
			if failStart == nil {
				c.Ob("R12.2", key, false, p.Pos(cl.Pos()), "verdict is computed but never tested (ignored)")
				continue
			}
			res := gateWalk(p, fn, succ, nil, failStart)
			c.Ob("R12.2", key, !res.Reached, p.Pos(cl.Pos()), "from the failure edge of this verdict no success return is reachable", res.Witness...)
			// and the test cannot be bypassed: from the call, success is reachable only across the
			// verdict's pass edge (a short-circuit such as `err != nil && !valid` skips the bool test)
			theCall := cl
			passCut := callGates(func(k *ssa.Call, idx int) GateKind {
				if k != theCall {
					return NotGate
				}
				if isBool {
					if _, isTuple := theCall.Type().(*types.Tuple); !isTuple || idx == 0 {
						return GateTrue
					}
					return NotGate
				}
				return GateErr
			})
			res2 := gateWalkFrom(p, fn, cl.Block(), succ, passCut, nil)
			c.Ob("R12.2", key+":not bypassed", !res2.Reached, p.Pos(cl.Pos()), "from the call, a success return is reachable only across the pass edge of the test of this verdict", res2.Witness...)
		}
	}
}

func c12Blobstream(c *Check) {
	p := c.P
	fetch := p.Func("nodebuilder/blobstream", "Service", "fetchEncodedDataRootTuples")
	if fetch == nil {
		c.Unresolved("R12.3", "fetchEncodedDataRootTuples not found")
		return
	}
	n := 0
	for _, name := range []string{"GetDataRootTupleRoot", "GetDataRootTupleInclusionProof"} {
		f := p.Func("nodebuilder/blobstream", "Service", name)
		if f == nil {
			c.Unresolved("R12.3", name+" not found")
			continue
		}
		c.SawFunc(f)
		for _, b := range f.Blocks {
			for _, ins := range b.Instrs {
				g, ok := ins.(*ssa.Call)
				if !ok || g.Call.StaticCallee() != fetch {
					continue
				}
				n++
				// gate: a validate* method called with the same range arguments
				cut := callGates(func(v *ssa.Call, _ int) GateKind {
					callee := v.Call.StaticCallee()
					if callee == nil || !strings.HasPrefix(callee.Name(), "validate") {
						return NotGate
					}
					// the fetch's start/end arguments are among the validator's arguments
					for _, fa := range g.Call.Args[2:] {
						found := false
						for _, va := range v.Call.Args {
							if va == fa {
								found = true
							}
						}
						if !found {
							return NotGate
						}
					}
					return GateErr
				})
				res := gateWalk(p, f, map[*ssa.BasicBlock]bool{b: true}, cut, nil)
				c.Ob("R12.3", name+": fetch behind validation", !res.Reached, p.Pos(g.Pos()), "tuples are fetched only for a range that passed validation with the same start/end", res.Witness...)
			}
		}
	}
	c.Floor("R12.3", "fetch call sites in blobstream entry points", n, 2)
}

func c12Included(c *Check, equal *ssa.Function) {
	p := c.P
	inc := p.Func("blob", "Service", "Included")
	if inc == nil {
		c.Unresolved("R12.4", "blob.(*Service).Included not found")
		return
	}
	c.SawFunc(inc)
	var proofParam *ssa.Parameter
	for _, prm := range inc.Params {
		if pt, ok := prm.Type().(*types.Pointer); ok && namedIs(pt.Elem(), pkgBlob, "Proof") {
			proofParam = prm
		}
	}
	if proofParam == nil {
		c.Unresolved("R12.4", "Included: proof parameter not found")
		return
	}
	var eqCall *ssa.Call
	for _, b := range inc.Blocks {
		for _, ins := range b.Instrs {
			if g, ok := ins.(*ssa.Call); ok && g.Call.StaticCallee() == equal {
				eqCall = g
			}
		}
	}
	if eqCall == nil {
		c.Ob("R12.4", "Included compares proofs", false, p.Pos(inc.Pos()), "the supplied proof is never compared with the node's own")
		return
	}
	recvSl := backSlice(eqCall.Call.Args[0], SliceOpt{})
	argSl := backSlice(eqCall.Call.Args[1], SliceOpt{})
	own := recvSl.Has(func(v ssa.Value) bool {
		g, ok := v.(*ssa.Call)
		return ok && g.Call.StaticCallee() != nil && g.Call.StaticCallee().Name() == "retrieve"
	})
	c.Ob("R12.4", "Included compares own vs supplied", own && argSl.Vals[proofParam] && !recvSl.Vals[proofParam], p.Pos(eqCall.Pos()),
		"equal() is called on the proof the node derives itself (retrieve) with the supplied proof as argument")
	n := 0
	for _, r := range returnsOf(inc) {
		k, ok := r.Results[0].(*ssa.Const)
		if !ok || k.Value == nil || k.Value.String() != "true" {
			continue
		}
		n++
		if len(r.Results) == 2 && resolveLocalLoad(r.Results[1]) == ssa.Value(eqCall) {
			c.Ob("R12.4", "Included returns true", true, p.Pos(r.Pos()), "true is returned together with equal()'s verdict as the error: the answer is true only if equal() == nil")
		} else {
			res := gateWalk(p, inc, map[*ssa.BasicBlock]bool{r.Block(): true}, callGates(func(g *ssa.Call, _ int) GateKind {
				if g == eqCall {
					return GateErr
				}
				return NotGate
			}), nil)
			c.Ob("R12.4", "Included returns true", !res.Reached, p.Pos(r.Pos()), "true is answered only across equal() == nil", res.Witness...)
		}
		var res GateResult
		res = gateWalk(p, inc, map[*ssa.BasicBlock]bool{r.Block(): true}, callGates(func(g *ssa.Call, _ int) GateKind {
			if g.Call.StaticCallee() != nil && g.Call.StaticCallee().Name() == "retrieve" {
				return GateErr
			}
			return NotGate
		}), nil)
		c.Ob("R12.4", "Included returns true after retrieve", !res.Reached, p.Pos(r.Pos()), "true is answered only if the blob with that commitment was found in the block", res.Witness...)
	}
	c.Floor("R12.4", "true returns of Included", n, 1)
	c12ProofEqual(c)
	// the proof GetProof hands out / Included compares against is the list retrieve maintains
	c11ProofList(c, "R12.6")
}

// c12ProofEqual: blob.Proof.equal is the comparison Included relies on; it must
// reject on a difference in every component of the per-row proofs. For each
// component (method of nmt.Proof) there is a rejecting comparison whose one side
// derives from the receiver and the other from the argument through that method.
func c12ProofEqual(c *Check) {
	p := c.P
	eq := p.Func("blob", "Proof", "equal")
	if eq == nil || len(eq.Params) < 2 {
		c.Unresolved("R12.4", "blob.Proof.equal not found")
		return
	}
	c.SawFunc(eq)
	via := func(v ssa.Value, method string, param *ssa.Parameter) bool {
		sl := backSlice(v, SliceOpt{CallArgs: true})
		return sl.Has(func(x ssa.Value) bool {
			g, ok := x.(*ssa.Call)
			if !ok {
				return false
			}
			o := calleeObj(&g.Call)
			if o == nil || o.Name() != method || len(g.Call.Args) == 0 {
				return false
			}
			rs := backSlice(g.Call.Args[0], SliceOpt{CallArgs: true})
			return rs.Vals[param] || rs.Has(func(y ssa.Value) bool {
				// value receivers are spilled: loads of the parameter's spill slot
				al, ok := y.(*ssa.Alloc)
				if !ok {
					return false
				}
				for _, r := range *al.Referrers() {
					if st, ok := r.(*ssa.Store); ok && st.Val == ssa.Value(param) {
						return true
					}
				}
				return false
			})
		})
	}
	for _, comp := range []string{"Len", "Nodes", "Start", "End", "LeafHash"} {
		_, gates := failGates(eq, func(cond ssa.Value, _ *Slice) bool {
			x, y, ok := comparisonOperands(cond)
			if !ok {
				return false
			}
			a, b := eq.Params[0], eq.Params[1]
			return (via(x, comp, a) && via(y, comp, b)) || (via(x, comp, b) && via(y, comp, a))
		})
		c.Ob("R12.4", "Proof.equal compares "+comp+"()", len(gates) > 0, p.Pos(eq.Pos()),
			"a rejecting comparison has "+comp+"() of the node's own proof on one side and of the supplied proof on the other")
	}
}
