package main

import (
	"fmt"
	"go/constant"
	"go/types"

	"golang.org/x/tools/go/ssa"
)

func init() {
	register("C02", runC02,
		"Structural necessary conditions of namespace-data completeness, decided on SSA. R2.1: NamespaceData.Verify accepts only across a rejecting comparison of the response's row count with the locally derived share.RowsWithNamespace(roots, namespace) result, every element is verified inside a fully gated range loop, and the row index handed to the element verifier derives from that locally derived list (not from the response). R2.2: the gate that lets RowNamespaceData.Verify succeed resolves to nmt's completeness-checking primitive (Proof.VerifyNamespace) - not to VerifyInclusion/VerifyLeafHashes; on the range path the completeness flag reaching ComputeRootWithBasicValidation is the constant true from VerifyNamespace and false from VerifyInclusion, forwarded unchanged. R2.3: shares-present <=> inclusion proof: with the facts (no shares, proof not of absence) or (shares, proof of absence) assumed, no success return is reachable (path-sensitive walk over canonical predicates), and a nil/empty proof is rejected. R2.4: caller binding as R1.4 for the namespace verifiers. Producer siblings are enumerated in the evidence; equality of their outputs is a runtime value property and is not decided.",
		"nmt.Proof.VerifyNamespace checks completeness of the leaves for the namespace under the given root (dependency)")
}

func runC02(c *Check) {
	p := c.P
	c.Rule("R2.1", "row set derived locally from trusted roots; response row count and order bound to it; every row verified")
	c.Rule("R2.2", "completeness primitive: the accepting gate resolves to nmt Proof.VerifyNamespace; range path forwards the completeness flag unchanged")
	c.Rule("R2.3", "shares present <=> inclusion proof; nil/empty proof rejected (seeded path-sensitive walk)")
	c.Rule("R2.4", "caller binding of namespace verifier call sites")

	vs := shwapVerifiers(c, "R2.1")
	var ndV, rndV *verifier
	for _, v := range vs {
		switch {
		case v.recvT.Obj().Name() == "NamespaceData" && v.fn.Name() == "Verify":
			ndV = v
		case v.recvT.Obj().Name() == "RowNamespaceData" && v.fn.Name() == "Verify":
			rndV = v
		}
	}
	if ndV == nil || rndV == nil {
		c.Unresolved("R2.1", "NamespaceData.Verify / RowNamespaceData.Verify not found by signature")
		return
	}
	c.SawFunc(ndV.fn)
	c.SawFunc(rndV.fn)
	c02RowSet(c, vs, ndV, rndV)
	c02Completeness(c, vs, rndV)
	c02PresenceAbsence(c, rndV)
	// R2.4
	n := 0
	for _, f := range p.SrcFuncs {
		root := rootFunc(f)
		if root.Pkg == nil || p.IsTestPos(root.Pos()) || root.Pkg.Pkg.Path() == pkgShwap || isTestSupportPkg(root.Pkg.Pkg.Path()) {
			continue
		}
		if fname := p.Fset.Position(root.Pos()).Filename; len(fname) > 10 && fname[len(fname)-10:] == "testing.go" {
			continue
		}
		for _, b := range f.Blocks {
			for _, ins := range b.Instrs {
				cl, ok := ins.(*ssa.Call)
				if !ok {
					continue
				}
				callee := cl.Call.StaticCallee()
				if callee != ndV.fn && callee != rndV.fn {
					continue
				}
				n++
				c.callSites++
				c.SawFunc(f)
				c01CheckCallSiteRule(c, "R2.4", f, cl, verifierByFn(vs, callee))
			}
		}
	}
	c.Floor("R2.4", "namespace verifier call sites outside shwap", n, 2)
	// producer siblings (evidence only)
	for _, prod := range []struct{ rel, recv, name string }{
		{"share/shwap", "", "RowNamespaceDataFromShares"},
		{"share/eds", "proofsCache", "RowNamespaceData"},
		{"share/ipld", "", "GetSharesByNamespace"},
	} {
		if f := p.Func(prod.rel, prod.recv, prod.name); f != nil {
			c.Note("producer of RowNamespaceData: %s at %s", fnName(f), p.Pos(f.Pos()))
			c.SawFunc(f)
		} else {
			c.Note("producer %s.%s.%s not found (informational)", prod.rel, prod.recv, prod.name)
		}
	}
	c.Rule("R2.5", "bitswap fetch: a failed re-verification of a concurrently fetched row never ends in a silent success (shared with C10)")
	c10FetchVerdict(c, "R2.5")
}

func c02RowSet(c *Check, vs []*verifier, ndV, rndV *verifier) {
	p := c.P
	fn := ndV.fn
	isRowsWithNs := func(o *types.Func) bool { return objIs(o, pkgShare, "", "RowsWithNamespace") }
	// the locally derived list: a call RowsWithNamespace(roots, namespace) with our parameters
	var derive *ssa.Call
	for _, b := range fn.Blocks {
		for _, ins := range b.Instrs {
			if cl, ok := ins.(*ssa.Call); ok && isRowsWithNs(calleeObj(&cl.Call)) {
				as := backSliceAll(cl.Call.Args, SliceOpt{CallArgs: true})
				if sliceHasAnyParam(as, fn, ndV.roots) && sliceHasAnyParam(as, fn, ndV.req) {
					derive = cl
				}
			}
		}
	}
	c.Ob("R2.1", "derive rows", derive != nil, p.Pos(fn.Pos()), "rows that can contain the namespace are derived with share.RowsWithNamespace(trusted roots, requested namespace)")
	if derive == nil {
		return
	}
	succ := blocksOfReturns(successReturns(fn))
	// (a) count gate
	cut, desc := failGates(fn, func(cond ssa.Value, sl *Slice) bool {
		if !sl.Vals[derive] || !sl.Vals[fn.Params[0]] {
			return false
		}
		// an equality: a response with fewer rows than derived (a prefix cut at a message boundary) is as wrong as one with more
		if !isEqualityTest(cond) {
			return false
		}
		// both sides are lengths
		nlen := 0
		for v := range sl.Vals {
			if isLenCall(v) {
				nlen++
			}
		}
		return nlen >= 2
	})
	res := gateWalk(p, fn, succ, cut, nil)
	c.Ob("R2.1", "row count gate", !res.Reached, p.Pos(fn.Pos()),
		fmt.Sprintf("success only across a rejecting (in)equality test len(response) != len(RowsWithNamespace(...)) (%d such checks); a one-sided comparison lets a truncated response pass", len(desc)), res.Witness...)
	// (b) every row verified in a fully gated loop, with the index from the derived list
	var elemCalls []*ssa.Call
	for _, b := range fn.Blocks {
		for _, ins := range b.Instrs {
			if cl, ok := ins.(*ssa.Call); ok && cl.Call.StaticCallee() == rndV.fn {
				elemCalls = append(elemCalls, cl)
			}
		}
	}
	c.Ob("R2.1", "element verifier called", len(elemCalls) >= 1, p.Pos(fn.Pos()), fmt.Sprintf("%d call(s) of RowNamespaceData.Verify on the elements", len(elemCalls)))
	elemCut := callGates(func(cl *ssa.Call, idx int) GateKind {
		if cl.Call.StaticCallee() == rndV.fn {
			return GateErr
		}
		return NotGate
	})
	loopCut, nLoops := rangeLoopExitCuts(p, fn, []int{0}, elemCut)
	res = gateWalk(p, fn, succ, orCuts(elemCut, loopCut), nil)
	c.Ob("R2.1", "every row verified", !res.Reached && nLoops >= 1, p.Pos(fn.Pos()),
		fmt.Sprintf("success only after a range loop over the response in which every iteration crosses RowNamespaceData.Verify's success edge (%d such loops)", nLoops), res.Witness...)
	for _, cl := range elemCalls {
		// args: recv, roots, namespace, rowIdx
		args := cl.Call.Args
		okRoots := len(args) == 4 && args[1] == ssa.Value(fn.Params[ndV.roots[0]])
		idxSl := backSlice(args[len(args)-1], SliceOpt{CallArgs: true})
		okIdx := idxSl.Vals[derive]
		nsSl := backSlice(args[2], SliceOpt{CallArgs: true})
		okNs := sliceHasAnyParam(nsSl, fn, ndV.req) && !nsSl.Vals[fn.Params[0]]
		c.Ob("R2.1", "element call binding", okRoots && okIdx && okNs, p.Pos(cl.Pos()),
			fmt.Sprintf("row verified with the trusted roots (%v), the requested namespace (%v) and a row index taken from the locally derived list (%v)", okRoots, okNs, okIdx))
		// the element is the i-th response row and the index the i-th derived index: same loop counter
		recvSl := backSlice(args[0], SliceOpt{})
		sameCounter := false
		for v := range recvSl.Vals {
			if ph, ok := v.(*ssa.Phi); ok && idxSl.Vals[ph] {
				sameCounter = true
			}
		}
		c.Ob("R2.1", "order binding", sameCounter, p.Pos(cl.Pos()), "response row i is verified against derived row index i (same loop counter)")
	}
}

func isVerifyNamespaceLeaf(o *types.Func) bool {
	return o != nil && pkgPathOf(o) == pkgNmt && o.Name() == "VerifyNamespace" && recvNamed(o) != nil && recvNamed(o).Obj().Name() == "Proof"
}

func c02Completeness(c *Check, vs []*verifier, rndV *verifier) {
	p := c.P
	fn := rndV.fn
	ci := newCryptoInfo(p)
	ci.leaf = isVerifyNamespaceLeaf
	cut, desc := failGates(fn, ci.cryptoGateWant(rndV))
	res := gateWalk(p, fn, blocksOfReturns(successReturns(fn)), cut, nil)
	c.Ob("R2.2", "RowNamespaceData.Verify gate is VerifyNamespace", !res.Reached, p.Pos(fn.Pos()),
		fmt.Sprintf("success only across a gate whose verdict comes from nmt Proof.VerifyNamespace consuming the row root and the response (%d gates)", len(desc)), res.Witness...)
	// the namespace handed to VerifyNamespace is the requested one, the root the trusted one
	p.Reach([]*ssa.Function{fn}, ReachOpt{MaxDepth: 2, SamePkgs: map[string]bool{pkgShwap: true}}, func(n *reachNode, site ssa.CallInstruction) {
		if !isVerifyNamespaceLeaf(calleeObj(site.Common())) {
			return
		}
		host := n.fn
		c.SawFunc(host)
		args := site.Common().Args // recv proof, hasher, nID, leaves, root
		if len(args) != 5 {
			c.Unresolved("R2.2", "VerifyNamespace call shape")
			return
		}
		nsSl := backSlice(args[2], SliceOpt{CallArgs: true})
		rootSl := backSlice(args[4], SliceOpt{CallArgs: true})
		leavesSl := backSlice(args[3], SliceOpt{CallArgs: true})
		nsOK, rootOK, leavesOK := false, false, false
		for _, pm := range host.Params[1:] {
			if nsSl.Vals[pm] && !rootSl.Vals[pm] {
				nsOK = true
			}
			if rootSl.Vals[pm] {
				rootOK = true
			}
		}
		leavesOK = leavesSl.Vals[host.Params[0]]
		c.Ob("R2.2", "VerifyNamespace operands@"+host.Name(), nsOK && rootOK && leavesOK, p.Pos(site.Pos()),
			"VerifyNamespace receives a namespace parameter, a root parameter and leaves built from the receiver's shares")
	})
	// range path: constant flags
	for _, w := range []struct {
		name string
		want bool
	}{{"VerifyNamespace", true}, {"VerifyInclusion", false}} {
		f := p.Func("share/shwap", "RangeNamespaceData", w.name)
		if f == nil {
			c.Unresolved("R2.2", "RangeNamespaceData."+w.name+" not found")
			continue
		}
		c.SawFunc(f)
		found := false
		for _, b := range f.Blocks {
			for _, ins := range b.Instrs {
				cl, ok := ins.(*ssa.Call)
				if !ok || cl.Call.StaticCallee() == nil || verifierByFn(vs, cl.Call.StaticCallee()) == nil {
					continue
				}
				last := cl.Call.Args[len(cl.Call.Args)-1]
				k, isC := last.(*ssa.Const)
				found = true
				c.Ob("R2.2", "range flag "+w.name, isC && k.Value != nil && k.Value.Kind() == constant.Bool && constant.BoolVal(k.Value) == w.want,
					p.Pos(cl.Pos()), fmt.Sprintf("%s passes completeness flag constant %v", w.name, w.want))
			}
		}
		if !found {
			c.Ob("R2.2", "range flag "+w.name, false, p.Pos(f.Pos()), "does not delegate to the shared verifier")
		}
	}
	// flag forwarded unchanged: verifyShares -> computeRoot -> ComputeRootWithBasicValidation
	vsh := p.Func("share/shwap", "RangeNamespaceData", "verifyShares")
	cr := p.Func("share/shwap", "", "computeRoot")
	if vsh == nil || cr == nil {
		c.Unresolved("R2.2", "verifyShares/computeRoot not found")
		return
	}
	c.SawFunc(vsh)
	c.SawFunc(cr)
	boolParam := func(f *ssa.Function) *ssa.Parameter {
		for _, pm := range f.Params {
			if b, ok := pm.Type().Underlying().(*types.Basic); ok && b.Kind() == types.Bool {
				return pm
			}
		}
		return nil
	}
	vp, cp := boolParam(vsh), boolParam(cr)
	n := 0
	for _, b := range vsh.Blocks {
		for _, ins := range b.Instrs {
			if cl, ok := ins.(*ssa.Call); ok && cl.Call.StaticCallee() == cr {
				n++
				c.Ob("R2.2", "flag verifyShares->computeRoot", vp != nil && cl.Call.Args[len(cl.Call.Args)-1] == ssa.Value(vp), p.Pos(cl.Pos()), "completeness flag forwarded unchanged")
			}
		}
	}
	c.Floor("R2.2", "computeRoot calls in verifyShares", n, 2)
	n = 0
	for _, b := range cr.Blocks {
		for _, ins := range b.Instrs {
			if cl, ok := ins.(*ssa.Call); ok {
				if o := calleeObj(&cl.Call); o != nil && pkgPathOf(o) == pkgNmt && o.Name() == "ComputeRootWithBasicValidation" {
					n++
					c.Ob("R2.2", "flag computeRoot->nmt", cp != nil && cl.Call.Args[len(cl.Call.Args)-1] == ssa.Value(cp), p.Pos(cl.Pos()), "completeness flag forwarded unchanged to ComputeRootWithBasicValidation")
				}
			}
		}
	}
	c.Floor("R2.2", "ComputeRootWithBasicValidation calls in computeRoot", n, 1)
}

func c02PresenceAbsence(c *Check, rndV *verifier) {
	p := c.P
	fn := rndV.fn
	k := newKeyer(fn)
	st := rndV.recvT.Underlying().(*types.Struct)
	var sharesF, proofF *types.Var
	for i := 0; i < st.NumFields(); i++ {
		f := st.Field(i)
		if typeMentionsShare(f.Type(), 0) {
			sharesF = f
		}
		if isNmtProofPtr(f.Type()) {
			proofF = f
		}
	}
	if sharesF == nil || proofF == nil {
		c.Unresolved("R2.3", "RowNamespaceData fields not found by type")
		return
	}
	var lenKey, absKey, emptyKey, nilKey string
	for _, b := range fn.Blocks {
		for _, ins := range b.Instrs {
			switch x := ins.(type) {
			case *ssa.Call:
				if isLenCall(x) {
					if _, ok := loadOfFieldVar(x.Call.Args[0], sharesF); ok {
						lenKey = eqKey("c:0", k.key(x))
					}
				}
				if o := calleeObj(&x.Call); o != nil && pkgPathOf(o) == pkgNmt && len(x.Call.Args) == 1 {
					if _, ok := loadOfFieldVar(x.Call.Args[0], proofF); ok {
						switch o.Name() {
						case "IsOfAbsence":
							absKey = k.key(x)
						case "IsEmptyProof":
							emptyKey = k.key(x)
						}
					}
				}
			case *ssa.BinOp:
				if isNilConst(x.Y) || isNilConst(x.X) {
					other := x.X
					if isNilConst(x.X) {
						other = x.Y
					}
					if _, ok := loadOfFieldVar(other, proofF); ok {
						nilKey = eqKey("nil", k.key(other))
					}
				}
			}
		}
	}
	succ := blocksOfReturns(successReturns(fn))
	type scen struct {
		name string
		seed map[string]bool
		need []string
	}
	scens := []scen{
		{"no shares with a non-absence proof", map[string]bool{lenKey: true, absKey: false}, []string{lenKey, absKey}},
		{"shares with an absence proof", map[string]bool{lenKey: false, absKey: true}, []string{lenKey, absKey}},
		{"nil proof", map[string]bool{nilKey: true}, []string{nilKey}},
		{"empty proof", map[string]bool{nilKey: false, emptyKey: true}, []string{nilKey, emptyKey}},
	}
	for _, s := range scens {
		missing := false
		for _, n := range s.need {
			if n == "" || containsHash(n) {
				missing = true
			}
		}
		if missing {
			c.Ob("R2.3", s.name, false, p.Pos(fn.Pos()), "the verifier never tests this combination (no canonical predicate over len(Shares)/Proof found)")
			continue
		}
		res := gateWalkFacts(p, fn, succ, nil, nil, nil, s.seed)
		c.Ob("R2.3", s.name, !res.Reached && !res.Overflow, p.Pos(fn.Pos()), "assuming '"+s.name+"', no success return is reachable", res.Witness...)
	}
}

func containsHash(s string) bool {
	for _, r := range s {
		if r == '#' {
			return true
		}
	}
	return false
}
