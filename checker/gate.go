package main

// E1 - GATE: "target is reachable only across a success edge of a gate".
// Implemented as a path-sensitive forward exploration of the SSA control-flow
// graph from the function entry in which designated branch edges are cut; a path
// carries boolean facts over canonicalised pure predicates so that syntactically
// repeated tests (errors.Is evaluated twice, `x != A && x != B` followed by a
// switch over x) do not produce infeasible witnesses. No solver is involved: a
// fact is a (canonical key -> bool) pair learnt from a branch already taken.

import (
	"fmt"
	"go/constant"
	"go/token"
	"go/types"
	"sort"
	"strings"

	"golang.org/x/tools/go/ssa"
)

// Atom: cond == Base XOR Neg
type Atom struct {
	Base ssa.Value
	Neg  bool
}

func stripNot(v ssa.Value) Atom {
	a := Atom{Base: v}
	for {
		u, ok := a.Base.(*ssa.UnOp)
		if !ok || u.Op != token.NOT {
			return a
		}
		a.Base = u.X
		a.Neg = !a.Neg
	}
}

func isNilConst(v ssa.Value) bool {
	c, ok := v.(*ssa.Const)
	return ok && c.Value == nil
}

// nilTest decodes `x == nil` / `x != nil` (after NOT stripping). eq reports
// whether the condition being TRUE means x == nil.
func nilTest(cond ssa.Value) (x ssa.Value, eq bool, ok bool) {
	a := stripNot(cond)
	b, isb := a.Base.(*ssa.BinOp)
	if !isb || (b.Op != token.EQL && b.Op != token.NEQ) {
		return nil, false, false
	}
	switch {
	case isNilConst(b.Y):
		x = b.X
	case isNilConst(b.X):
		x = b.Y
	default:
		return nil, false, false
	}
	eq = (b.Op == token.EQL) != a.Neg
	return x, eq, true
}

// resolveCall follows a tested value back to the call that produced it:
// a direct call value, an Extract from a call tuple, or a load of a local
// (Alloc) whose most recent store in the same block is such a value.
func resolveCall(v ssa.Value) (call *ssa.Call, resultIdx int) {
	for depth := 0; depth < 6; depth++ {
		switch x := v.(type) {
		case *ssa.Call:
			return x, 0
		case *ssa.Extract:
			if c, ok := x.Tuple.(*ssa.Call); ok {
				return c, x.Index
			}
			return nil, 0
		case *ssa.ChangeInterface:
			v = x.X
		case *ssa.MakeInterface:
			v = x.X
		case *ssa.UnOp:
			if x.Op != token.MUL {
				return nil, 0
			}
			al, ok := x.X.(*ssa.Alloc)
			if !ok {
				return nil, 0
			}
			// last store to al before x in x's block
			var last ssa.Value
			for _, ins := range x.Block().Instrs {
				if ins == x {
					break
				}
				if st, ok := ins.(*ssa.Store); ok && st.Addr == al {
					last = st.Val
				}
			}
			if last == nil {
				// unique store in the whole function dominating the load
				var only *ssa.Store
				n := 0
				for _, r := range *al.Referrers() {
					if st, ok := r.(*ssa.Store); ok && st.Addr == al {
						only = st
						n++
					}
				}
				if n == 1 && only.Block().Dominates(x.Block()) {
					last = only.Val
				}
			}
			if last == nil {
				return nil, 0
			}
			v = last
		default:
			return nil, 0
		}
	}
	return nil, 0
}

type GateKind int

const (
	NotGate   GateKind = iota
	GateErr            // success <=> the call's error result is nil
	GateTrue           // success <=> bool result true
	GateFalse          // success <=> bool result false
)

// EdgeCut decides for the If terminating block b which outgoing edges are
// success edges (and therefore cut in the reachability walk).
type EdgeCut func(b *ssa.BasicBlock, ifi *ssa.If) (cutTrue, cutFalse bool)

// callGates builds an EdgeCut from a classifier of calls.
func callGates(classify func(c *ssa.Call, resIdx int) GateKind) EdgeCut {
	return func(b *ssa.BasicBlock, ifi *ssa.If) (bool, bool) {
		if x, eq, ok := nilTest(ifi.Cond); ok {
			if c, idx := resolveCall(x); c != nil {
				if classify(c, idx) == GateErr {
					// cond true means x==nil when eq
					return eq, !eq
				}
			}
			return false, false
		}
		a := stripNot(ifi.Cond)
		if c, idx := resolveCall(a.Base); c != nil {
			switch classify(c, idx) {
			case GateTrue:
				return !a.Neg, a.Neg
			case GateFalse:
				return a.Neg, !a.Neg
			}
		}
		return false, false
	}
}

func orCuts(cuts ...EdgeCut) EdgeCut {
	return func(b *ssa.BasicBlock, ifi *ssa.If) (bool, bool) {
		t, f := false, false
		for _, c := range cuts {
			ct, cf := c(b, ifi)
			t = t || ct
			f = f || cf
		}
		return t, f
	}
}

// ---- canonical predicate keys ----

type keyer struct {
	fn           *ssa.Function
	storedFields map[*types.Var]bool // fields stored somewhere in fn (incl. closures)
	storedGlobal map[*ssa.Global]bool
	memo         map[ssa.Value]string
}

func newKeyer(fn *ssa.Function) *keyer {
	k := &keyer{fn: fn, storedFields: map[*types.Var]bool{}, storedGlobal: map[*ssa.Global]bool{}, memo: map[ssa.Value]string{}}
	fns := append([]*ssa.Function{fn}, Closures(fn)...)
	for _, f := range fns {
		for _, b := range f.Blocks {
			for _, ins := range b.Instrs {
				st, ok := ins.(*ssa.Store)
				if !ok {
					continue
				}
				switch a := st.Addr.(type) {
				case *ssa.FieldAddr:
					k.storedFields[fieldOf(a)] = true
				case *ssa.Global:
					k.storedGlobal[a] = true
				}
			}
		}
	}
	return k
}

func fieldOf(a *ssa.FieldAddr) *types.Var {
	t := a.X.Type()
	if pt, ok := t.Underlying().(*types.Pointer); ok {
		t = pt.Elem()
	}
	st, ok := t.Underlying().(*types.Struct)
	if !ok {
		return nil
	}
	return st.Field(a.Field)
}

func fieldOfVal(a *ssa.Field) *types.Var {
	st, ok := a.X.Type().Underlying().(*types.Struct)
	if !ok {
		return nil
	}
	return st.Field(a.Field)
}

var pureCalls = map[string]bool{
	"errors.Is": true, "bytes.Equal": true, "os.IsNotExist": true, "os.IsExist": true,
}

func (k *keyer) key(v ssa.Value) string {
	if s, ok := k.memo[v]; ok {
		return s
	}
	s := k.key1(v)
	k.memo[v] = s
	return s
}

func (k *keyer) uniq(v ssa.Value) string { return fmt.Sprintf("#%s@%p", v.Name(), v) }

func (k *keyer) key1(v ssa.Value) string {
	switch x := v.(type) {
	case *ssa.Const:
		if x.Value == nil {
			return "nil"
		}
		return "c:" + x.Value.ExactString()
	case *ssa.Parameter:
		return "p:" + x.Name()
	case *ssa.FreeVar:
		return "fv:" + x.Name()
	case *ssa.Alloc:
		// the local a by-value parameter is spilled into: written exactly once,
		// from the parameter
		var only *ssa.Store
		n := 0
		if refs := x.Referrers(); refs != nil {
			for _, r := range *refs {
				if st, ok := r.(*ssa.Store); ok && st.Addr == ssa.Value(x) {
					only = st
					n++
				}
			}
		}
		if n == 1 {
			if pm, ok := only.Val.(*ssa.Parameter); ok {
				return "spill:" + pm.Name()
			}
		}
		return k.uniq(v)
	case *ssa.Global:
		return "g:" + x.String()
	case *ssa.Field:
		return k.key(x.X) + fmt.Sprintf(".f%d", x.Field)
	case *ssa.FieldAddr:
		return "&" + k.key(x.X) + fmt.Sprintf(".f%d", x.Field)
	case *ssa.UnOp:
		switch x.Op {
		case token.MUL:
			switch a := x.X.(type) {
			case *ssa.FieldAddr:
				if f := fieldOf(a); f != nil && !k.storedFields[f] {
					return "*" + k.key(a)
				}
			case *ssa.Global:
				if !k.storedGlobal[a] {
					return "*" + k.key(a)
				}
			}
			switch a := x.X.(type) {
			case *ssa.Field, *ssa.UnOp, *ssa.Parameter:
				// pointee of a pointer held in an immutable value (field of a value
				// parameter, canonical load): assumed not written by the function
				// under analysis between two tests
				if kx := k.key(a); !strings.Contains(kx, "#") {
					return "*" + kx
				}
			}
			return k.uniq(v)
		case token.NOT:
			return "!" + k.key(x.X)
		}
		return k.uniq(v)
	case *ssa.BinOp:
		a, b := k.key(x.X), k.key(x.Y)
		op := x.Op
		if (op == token.EQL || op == token.NEQ) && a > b {
			a, b = b, a
		}
		return "(" + a + " " + op.String() + " " + b + ")"
	case *ssa.Convert:
		return k.key(x.X)
	case *ssa.ChangeType:
		return k.key(x.X)
	case *ssa.MakeInterface:
		return k.key(x.X)
	case *ssa.Call:
		if x.Call.IsInvoke() {
			return k.uniq(v)
		}
		if b, ok := x.Call.Value.(*ssa.Builtin); ok && b.Name() == "len" {
			return "len(" + k.key(x.Call.Args[0]) + ")"
		}
		if f := x.Call.StaticCallee(); f != nil {
			name := f.String()
			if pureCalls[name] {
				var as []string
				for _, a := range x.Call.Args {
					as = append(as, k.key(a))
				}
				return name + "(" + strings.Join(as, ",") + ")"
			}
			// read-only accessors of nmt.Proof (value receiver, no side effects)
			if o, ok := f.Object().(*types.Func); ok && pkgPathOf(o) == "github.com/celestiaorg/nmt" && len(x.Call.Args) == 1 {
				switch o.Name() {
				case "IsOfAbsence", "IsEmptyProof", "Start", "End":
					if ka := k.key(x.Call.Args[0]); !strings.Contains(ka, "#") {
						return "nmt." + o.Name() + "(" + ka + ")"
					}
				}
			}
		}
		return k.uniq(v)
	}
	return k.uniq(v)
}

// predKey canonicalises a boolean condition to (key, negated): NEQ becomes a
// negated EQL so that `x != A` and `x == A` share one fact.
func (k *keyer) predKey(cond ssa.Value) (string, bool) {
	a := stripNot(cond)
	if b, ok := a.Base.(*ssa.BinOp); ok && (b.Op == token.EQL || b.Op == token.NEQ) {
		x, y := k.key(b.X), k.key(b.Y)
		if x > y {
			x, y = y, x
		}
		neg := a.Neg
		if b.Op == token.NEQ {
			neg = !neg
		}
		return "(" + x + " == " + y + ")", neg
	}
	// len(x) > 0, len(x) >= 1, 0 < len(x)  ==  !(len(x) == 0); len(x) < 1, len(x) <= 0 == (len(x) == 0)
	if b, ok := a.Base.(*ssa.BinOp); ok {
		x, y, op := b.X, b.Y, b.Op
		if isLenCall(y) && !isLenCall(x) { // mirror so that len is on the left
			x, y = y, x
			switch op {
			case token.LSS:
				op = token.GTR
			case token.GTR:
				op = token.LSS
			case token.LEQ:
				op = token.GEQ
			case token.GEQ:
				op = token.LEQ
			}
		}
		if isLenCall(x) {
			if c, ok := y.(*ssa.Const); ok && c.Value != nil {
				if n, exact := constant.Int64Val(c.Value); exact {
					zk := eqKey("c:0", k.key(x))
					switch {
					case op == token.GTR && n == 0, op == token.GEQ && n == 1:
						return zk, !a.Neg
					case op == token.LSS && n == 1, op == token.LEQ && n == 0:
						return zk, a.Neg
					}
				}
			}
		}
	}
	return k.key(a.Base), a.Neg
}

func eqKey(x, y string) string {
	if x > y {
		x, y = y, x
	}
	return "(" + x + " == " + y + ")"
}

func isLenCall(v ssa.Value) bool {
	c, ok := v.(*ssa.Call)
	if !ok {
		return false
	}
	b, ok := c.Call.Value.(*ssa.Builtin)
	return ok && b.Name() == "len"
}

// ---- the walk ----

type factSet struct {
	m   map[string]bool
	sig string
}

func (fs factSet) with(key string, val bool) factSet {
	if v, ok := fs.m[key]; ok && v == val {
		return fs
	}
	m := make(map[string]bool, len(fs.m)+1)
	for k, v := range fs.m {
		m[k] = v
	}
	m[key] = val
	ks := make([]string, 0, len(m))
	for k := range m {
		ks = append(ks, k)
	}
	sort.Strings(ks)
	var sb strings.Builder
	for _, k := range ks {
		sb.WriteString(k)
		if m[k] {
			sb.WriteString("=T;")
		} else {
			sb.WriteString("=F;")
		}
	}
	return factSet{m: m, sig: sb.String()}
}

type walkState struct {
	b    *ssa.BasicBlock
	f    factSet
	prev *walkState
	edge string
}

type GateResult struct {
	Reached  bool
	Witness  []string // block-by-block path for the first undischarged path found
	States   int
	Overflow bool
}

const maxWalkStates = 200000

// gateWalk explores fn from its entry; edges selected by cut are not followed.
// It reports whether any block in targets is reachable, with a witness.
// start == nil means the entry block.
func gateWalk(p *Program, fn *ssa.Function, targets map[*ssa.BasicBlock]bool, cut EdgeCut, start *ssa.BasicBlock) GateResult {
	return gateWalkOpts(p, fn, targets, cut, start, nil)
}

// gateWalkOpts: barrier blocks are entered but never left (a path that passes a
// barrier block is discharged).
func gateWalkOpts(p *Program, fn *ssa.Function, targets map[*ssa.BasicBlock]bool, cut EdgeCut, start *ssa.BasicBlock, barrier map[*ssa.BasicBlock]bool) GateResult {
	return gateWalkFacts(p, fn, targets, cut, start, barrier, nil)
}

// gateWalkFacts additionally seeds the walk with assumed facts (canonical
// predicate key -> truth value): "is a success return reachable when ...".
func gateWalkFacts(p *Program, fn *ssa.Function, targets map[*ssa.BasicBlock]bool, cut EdgeCut, start *ssa.BasicBlock, barrier map[*ssa.BasicBlock]bool, seed map[string]bool) GateResult {
	if len(fn.Blocks) == 0 {
		return GateResult{}
	}
	k := newKeyer(fn)
	if start == nil {
		start = fn.Blocks[0]
	}
	f0 := factSet{m: map[string]bool{}}
	for key, val := range seed {
		f0 = f0.with(key, val)
	}
	init := &walkState{b: start, f: f0}
	visited := map[string]bool{}
	queue := []*walkState{init}
	res := GateResult{}
	vkey := func(s *walkState) string { return fmt.Sprintf("%d|%s", s.b.Index, s.f.sig) }
	visited[vkey(init)] = true
	for len(queue) > 0 {
		s := queue[0]
		queue = queue[1:]
		res.States++
		if res.States > maxWalkStates {
			res.Overflow = true
			return res
		}
		if targets[s.b] {
			res.Reached = true
			res.Witness = witnessPath(p, s)
			return res
		}
		if barrier[s.b] {
			continue
		}
		push := func(nb *ssa.BasicBlock, f factSet, edge string) {
			ns := &walkState{b: nb, f: f, prev: s, edge: edge}
			kk := vkey(ns)
			if visited[kk] {
				return
			}
			visited[kk] = true
			queue = append(queue, ns)
		}
		last := s.b.Instrs[len(s.b.Instrs)-1]
		ifi, isIf := last.(*ssa.If)
		if !isIf {
			for _, nb := range s.b.Succs {
				push(nb, s.f, "")
			}
			continue
		}
		ct, cf := false, false
		if cut != nil {
			ct, cf = cut(s.b, ifi)
		}
		pk, neg := k.predKey(ifi.Cond)
		known, have := s.f.m[pk]
		// implication: errors.Is(v, X) true => v != nil; v == nil true => errors.Is(v,X) false
		if !have {
			if strings.HasPrefix(pk, "errors.Is(") {
				arg := firstArg(pk)
				if v, ok := s.f.m["("+minmax(arg, "nil")+")"]; ok && v {
					known, have = false, true
				}
			}
		}
		condTrue := func() (bool, bool) { // (value, known)
			if !have {
				return false, false
			}
			return known != neg, true
		}
		val, kn := condTrue()
		if c, ok := ifi.Cond.(*ssa.Const); ok && c.Value != nil && c.Value.Kind() == constant.Bool {
			val, kn = constant.BoolVal(c.Value), true
		}
		// true edge
		if !ct && (!kn || val) {
			f := s.f.with(pk, !neg)
			f = addImplied(f, pk, !neg)
			push(s.b.Succs[0], f, "T")
		}
		if !cf && (!kn || !val) {
			f := s.f.with(pk, neg)
			f = addImplied(f, pk, neg)
			push(s.b.Succs[1], f, "F")
		}
	}
	return res
}

func minmax(a, b string) string {
	if a > b {
		a, b = b, a
	}
	return a + " == " + b
}

func firstArg(pk string) string {
	// pk = errors.Is(<a>,<b>) ; keys never contain a top-level comma inside <a> for the
	// shapes we canonicalise (parameters, uniq ids, extracts), so split at the first comma
	s := strings.TrimPrefix(pk, "errors.Is(")
	depth := 0
	for i, r := range s {
		switch r {
		case '(':
			depth++
		case ')':
			depth--
		case ',':
			if depth == 0 {
				return s[:i]
			}
		}
	}
	return s
}

func addImplied(f factSet, pk string, val bool) factSet {
	if val && strings.HasPrefix(pk, "errors.Is(") {
		return f.with("("+minmax(firstArg(pk), "nil")+")", false)
	}
	return f
}

func witnessPath(p *Program, s *walkState) []string {
	var rev []string
	for x := s; x != nil; x = x.prev {
		pos := blockPos(x.b)
		e := ""
		if x.edge != "" {
			e = " via " + x.edge + "-edge"
		}
		rev = append(rev, fmt.Sprintf("block %d (%s)%s %s", x.b.Index, x.b.Comment, e, p.Pos(pos)))
	}
	for i, j := 0, len(rev)-1; i < j; i, j = i+1, j-1 {
		rev[i], rev[j] = rev[j], rev[i]
	}
	if len(rev) > 40 {
		rev = append(rev[:20], append([]string{"..."}, rev[len(rev)-19:]...)...)
	}
	return rev
}

func blockPos(b *ssa.BasicBlock) token.Pos {
	for _, ins := range b.Instrs {
		if ins.Pos().IsValid() {
			return ins.Pos()
		}
	}
	return token.NoPos
}

// ---- helpers to find targets ----

// returnsOf lists Return instructions of fn.
func returnsOf(fn *ssa.Function) []*ssa.Return {
	var out []*ssa.Return
	for _, b := range fn.Blocks {
		if len(b.Instrs) == 0 || b == fn.Recover {
			continue // the recover block is entered only by a recovered panic
		}
		if r, ok := b.Instrs[len(b.Instrs)-1].(*ssa.Return); ok {
			out = append(out, r)
		}
	}
	return out
}

// errResultIndex returns the index of the last result if it is of type error, else -1.
func errResultIndex(fn *ssa.Function) int {
	res := fn.Signature.Results()
	if res.Len() == 0 {
		return -1
	}
	if isErrorType(res.At(res.Len() - 1).Type()) {
		return res.Len() - 1
	}
	return -1
}

func isErrorType(t types.Type) bool {
	n, ok := t.(*types.Named)
	return ok && n.Obj().Pkg() == nil && n.Obj().Name() == "error"
}

// successReturnBlocks: blocks ending in a Return whose error result may be nil:
// a nil constant, or a phi/value that is not provably non-nil. A return of a call
// result (`return f(x)`) is reported separately as delegating.
type retClass int

const (
	retNil retClass = iota
	retErr
	retDelegate
	retUnknown
)

func classifyReturn(r *ssa.Return, errIdx int) (retClass, ssa.Value) {
	if errIdx < 0 || errIdx >= len(r.Results) {
		return retUnknown, nil
	}
	v := r.Results[errIdx]
	return classifyErrValue(v, 0)
}

func classifyErrValue(v ssa.Value, depth int) (retClass, ssa.Value) {
	if depth > 4 {
		return retUnknown, v
	}
	switch x := v.(type) {
	case *ssa.Const:
		if x.Value == nil {
			return retNil, v
		}
		return retErr, v
	case *ssa.MakeInterface:
		return retErr, v
	case *ssa.Call:
		if isErrorConstructor(x) {
			return retErr, v
		}
		return retDelegate, v
	case *ssa.Extract:
		if c, ok := x.Tuple.(*ssa.Call); ok {
			_ = c
			return retDelegate, v
		}
	case *ssa.UnOp:
		if x.Op == token.MUL {
			if g, ok := x.X.(*ssa.Global); ok {
				_ = g
				return retErr, v // sentinel error variable
			}
		}
	case *ssa.Phi:
		// nil if any incoming edge may be nil
		cls := retErr
		for _, e := range x.Edges {
			c, _ := classifyErrValue(e, depth+1)
			if c == retNil {
				return retNil, v
			}
			if c != retErr {
				cls = c
			}
		}
		return cls, v
	}
	return retUnknown, v
}

func isErrorConstructor(c *ssa.Call) bool {
	f := c.Call.StaticCallee()
	if f == nil {
		return false
	}
	switch f.String() {
	case "fmt.Errorf", "errors.New", "errors.Join":
		return true
	}
	return false
}
