package main

import (
	"fmt"
	"go/constant"
	"go/token"
	"go/types"
	"sort"
	"strings"

	"golang.org/x/tools/go/ssa"
)

func init() {
	register("C04", runC04,
		"Structural necessary conditions of 'no height is ever lost' (the reachable-state invariant itself, over interleavings and crash points, is not decidable statically). R4.1 cursor/persistence agreement: the job kinds that newCheckpoint keeps covered are read from its own code (kinds compared with w.JobType in a condition guarding the append to Workers or guarding a store that lowers SampleFrom; retry heights persist through Failed); every coordinatorState method that advances the catch-up cursor `next` and returns a job must return a job whose kind is covered, otherwise the heights behind the cursor exist nowhere in the checkpoint while the job is in flight. The persisted resume range of a worker is (Curr, To) copied without arithmetic. R4.2 single owner: every coordinatorState method that writes state is called only from the coordinator goroutine's functions (run, runWorker, other state methods). R4.3 stop ordering: the final checkpoint in DASer.Stop is taken only after cancel() and a successful wait for the coordinator; a created job is always handed to runWorker before control returns to the coordinator's select (a job that was created but not run has moved the cursor for nothing).",
		"worker goroutines never touch coordinatorState (they communicate through resultCh and their own locked state)")
	register("C13", runC13,
		"Structural necessary conditions of DASer progress and bounds (liveness under fairness and agreement of statistics with reality are not decided). R13.1 result-or-own-cancellation: in (*worker).run every return that does not pass the send on the result channel is reachable only across a branch that tests the worker's own context (ctx.Err()/ctx.Done()). R13.2 limit guards: every call of runWorker in the coordinator loop is control-dependent on !concurrencyLimitReached() or !recentJobsLimitReached() (the resume loop over checkpoint workers is the one reasoned exception), the two predicates compare len(inProgress) with limit resp. 2*limit, and a job that was created is run on every path (creating one has side effects on the cursor). R13.3 done-check after mutation: every coordinatorState method called from the coordinator loop that writes an input of checkDone (inputs are read from checkDone's own code) and is not a job constructor is followed by checkDone on every path before the loop's select. R13.4 attempt monotonicity: no coordinatorState method reads a map entry after a path that deleted entries from the same map (the retry count is read from inRetry before inRetry is cleaned), the new attempt stored for a failed-again height derives from nextRetry(inRetry[h]), and nextRetry only increments count.",
		"time-based back-off arithmetic and scheduling fairness are outside the rules")
}

const pkgDas = modPath + "/das"

type dasCtx struct {
	c       *Check
	stateT  *types.Named
	methods map[string]*ssa.Function // coordinatorState methods by name
	run     *ssa.Function
}

func newDasCtx(c *Check, rule string) *dasCtx {
	p := c.P
	d := &dasCtx{c: c, methods: map[string]*ssa.Function{}}
	d.stateT = p.Named("das", "coordinatorState")
	if d.stateT == nil {
		c.Unresolved(rule, "das.coordinatorState not found")
		return nil
	}
	for i := 0; i < d.stateT.NumMethods(); i++ {
		m := d.stateT.Method(i)
		if p.IsTestPos(m.Pos()) {
			continue
		}
		if f := p.SSA.FuncValue(m); f != nil && f.Blocks != nil {
			d.methods[m.Name()] = f
		}
	}
	d.run = p.Func("das", "samplingCoordinator", "run")
	if d.run == nil {
		c.Unresolved(rule, "das.(*samplingCoordinator).run not found")
		return nil
	}
	return d
}

func (d *dasCtx) stateField(name string) *types.Var {
	st := d.stateT.Underlying().(*types.Struct)
	for i := 0; i < st.NumFields(); i++ {
		if st.Field(i).Name() == name {
			return st.Field(i)
		}
	}
	return nil
}

// fieldOfAddr returns the struct field an address/map value belongs to:
// &x.f, *(&x.f) (map or slice header loaded from a field).
func fieldOfAddr(v ssa.Value) *types.Var {
	switch x := v.(type) {
	case *ssa.FieldAddr:
		return fieldOf(x)
	case *ssa.UnOp:
		if x.Op == token.MUL {
			if fa, ok := x.X.(*ssa.FieldAddr); ok {
				return fieldOf(fa)
			}
		}
	}
	return nil
}

type fieldEffects struct {
	stores  map[*types.Var][]ssa.Instruction
	updates map[*types.Var][]ssa.Instruction // map insert
	deletes map[*types.Var][]ssa.Instruction
	lookups map[*types.Var][]ssa.Instruction
	loads   map[*types.Var][]ssa.Instruction
}

func effectsOf(fn *ssa.Function) *fieldEffects {
	e := &fieldEffects{stores: map[*types.Var][]ssa.Instruction{}, updates: map[*types.Var][]ssa.Instruction{},
		deletes: map[*types.Var][]ssa.Instruction{}, lookups: map[*types.Var][]ssa.Instruction{}, loads: map[*types.Var][]ssa.Instruction{}}
	for _, b := range fn.Blocks {
		for _, ins := range b.Instrs {
			switch x := ins.(type) {
			case *ssa.Store:
				if f := fieldOfAddr(x.Addr); f != nil {
					e.stores[f] = append(e.stores[f], x)
				}
			case *ssa.MapUpdate:
				if f := fieldOfAddr(x.Map); f != nil {
					e.updates[f] = append(e.updates[f], x)
				}
			case *ssa.Lookup:
				if f := fieldOfAddr(x.X); f != nil {
					e.lookups[f] = append(e.lookups[f], x)
				}
			case *ssa.Call:
				if bi, ok := x.Call.Value.(*ssa.Builtin); ok && bi.Name() == "delete" {
					if f := fieldOfAddr(x.Call.Args[0]); f != nil {
						e.deletes[f] = append(e.deletes[f], x)
					}
				}
			case *ssa.UnOp:
				if x.Op == token.MUL {
					if fa, ok := x.X.(*ssa.FieldAddr); ok {
						e.loads[fieldOf(fa)] = append(e.loads[fieldOf(fa)], x)
					}
				}
			}
		}
	}
	return e
}

func (e *fieldEffects) writes(f *types.Var) bool {
	return len(e.stores[f]) > 0 || len(e.updates[f]) > 0 || len(e.deletes[f]) > 0
}

func returnsJob(fn *ssa.Function) bool {
	res := fn.Signature.Results()
	return res.Len() >= 1 && namedIs(res.At(0).Type(), pkgDas, "job")
}

// jobKindsReturned: the jobType constants stored into the jobType field of the
// job values fn returns (directly or through a callee that builds the job from
// a constant argument).
func (d *dasCtx) jobKindsReturned(fn *ssa.Function, depth int) map[string]bool {
	out := map[string]bool{}
	if depth > 3 {
		return out
	}
	for _, b := range fn.Blocks {
		for _, ins := range b.Instrs {
			switch x := ins.(type) {
			case *ssa.Store:
				fa, ok := x.Addr.(*ssa.FieldAddr)
				if !ok || fieldOf(fa) == nil || fieldOf(fa).Name() != "jobType" {
					continue
				}
				if k := jobTypeConstName(d.c.P, x.Val); k != "" {
					out[k] = true
				} else if pm, ok := x.Val.(*ssa.Parameter); ok {
					out["param:"+pm.Name()] = true
				}
			case *ssa.Call:
				callee := x.Call.StaticCallee()
				if callee == nil || !returnsJob(callee) || callee == fn {
					continue
				}
				sub := d.jobKindsReturned(callee, depth+1)
				for k := range sub {
					if strings.HasPrefix(k, "param:") {
						// resolve through the argument at this call site
						name := strings.TrimPrefix(k, "param:")
						for i, pm := range callee.Params {
							if pm.Name() == name && i < len(x.Call.Args) {
								if kk := jobTypeConstName(d.c.P, x.Call.Args[i]); kk != "" {
									out[kk] = true
								}
							}
						}
						continue
					}
					out[k] = true
				}
			}
		}
	}
	return out
}

func jobTypeConstName(p *Program, v ssa.Value) string {
	k, ok := v.(*ssa.Const)
	if !ok || k.Value == nil || !namedIs(k.Type(), pkgDas, "jobType") {
		return ""
	}
	// map the value back to the declared constant's name
	pk := p.Pkg("das")
	for _, n := range pk.Types.Scope().Names() {
		if cst, ok := pk.Types.Scope().Lookup(n).(*types.Const); ok && namedIs(cst.Type(), pkgDas, "jobType") {
			if constant.Compare(cst.Val(), token.EQL, k.Value) {
				return cst.Name()
			}
		}
	}
	return k.Value.ExactString()
}

func runC04(c *Check) {
	p := c.P
	c.Rule("R4.1", "every job kind created while advancing the catch-up cursor is kept covered by newCheckpoint; resume range copied unchanged")
	c.Rule("R4.2", "coordinatorState is written only from the coordinator goroutine's functions")
	c.Rule("R4.3", "final checkpoint only after cancel() and successful wait; created jobs are always run")
	d := newDasCtx(c, "R4.1")
	if d == nil {
		return
	}
	nc := p.Func("das", "", "newCheckpoint")
	if nc == nil {
		c.Unresolved("R4.1", "das.newCheckpoint not found")
		return
	}
	c.SawFunc(nc)
	// kinds covered by newCheckpoint: jobType constants compared in a condition that guards (dominates)
	// an append to the workers slice or a store lowering SampleFrom
	covered := map[string]string{}
	for _, b := range nc.Blocks {
		ifi, ok := b.Instrs[len(b.Instrs)-1].(*ssa.If)
		if !ok {
			continue
		}
		// only direct comparisons `w.JobType == <const>` (also as operands of || / &&)
		bo, isCmp := stripNot(ifi.Cond).Base.(*ssa.BinOp)
		if !isCmp || bo.Op != token.EQL || stripNot(ifi.Cond).Neg {
			continue
		}
		sl := backSliceAll([]ssa.Value{bo.X, bo.Y}, SliceOpt{})
		var kinds []string
		if !sl.HasFieldNamed("WorkerStats", "JobType") {
			continue
		}
		for _, v := range []ssa.Value{bo.X, bo.Y} {
			if k := jobTypeConstName(p, v); k != "" {
				kinds = append(kinds, k)
			}
		}
		// what does the true side do?
		t := b.Succs[0]
		eff := ""
		for _, bb := range nc.Blocks {
			if !t.Dominates(bb) {
				continue
			}
			for _, ins := range bb.Instrs {
				if cl, ok := ins.(*ssa.Call); ok {
					if bi, ok := cl.Call.Value.(*ssa.Builtin); ok && bi.Name() == "append" && strings.Contains(cl.Type().String(), "workerCheckpoint") {
						eff = "resumed as worker"
					}
				}
			}
		}
		if eff == "" {
			// a phi merging w.From/w.Curr into the value that becomes SampleFrom
			for _, bb := range nc.Blocks {
				for _, ins := range bb.Instrs {
					if ph, ok := ins.(*ssa.Phi); ok {
						for i, e := range ph.Edges {
							if i < len(bb.Preds) && t.Dominates(bb.Preds[i]) || bb.Preds[i] == t {
								es := backSlice(e, SliceOpt{})
								if es.HasFieldNamed("WorkerStats", "From") || es.HasFieldNamed("WorkerStats", "Curr") {
									if flowsToField(nc, ph, "SampleFrom") {
										eff = "lowers SampleFrom to the job's height"
									}
								}
							}
						}
					}
				}
			}
		}
		if eff != "" {
			for _, k := range kinds {
				covered[k] = eff
			}
		}
	}
	covered["retryJob"] = "heights stay in failed/inRetry, both merged into Failed by unsafeStats (R4.1c)"
	var ck []string
	for k, v := range covered {
		ck = append(ck, k+": "+v)
	}
	sort.Strings(ck)
	c.Note("job kinds covered by newCheckpoint: %v", ck)
	c.Ob("R4.1", "catchup workers persisted", covered["catchupJob"] != "", p.Pos(nc.Pos()), "newCheckpoint keeps catch-up workers")
	c04EveryCatchupWorker(c, nc)
	// R4.1c retry heights: unsafeStats merges failed and inRetry into Failed
	if us := d.methods["unsafeStats"]; us != nil {
		c.SawFunc(us)
		e := effectsOf(us)
		_ = e
		okF, okR := false, false
		for _, b := range us.Blocks {
			for _, ins := range b.Instrs {
				if rg, ok := ins.(*ssa.Range); ok {
					if f := fieldOfAddr(rg.X); f != nil {
						if f.Name() == "failed" {
							okF = true
						}
						if f.Name() == "inRetry" {
							okR = true
						}
					}
				}
			}
		}
		c.Ob("R4.1", "failed and inRetry reported", okF && okR, p.Pos(us.Pos()), "unsafeStats iterates both failed and inRetry into the Failed map that is persisted")
	} else {
		c.Unresolved("R4.1", "unsafeStats not found")
	}
	next := d.stateField("next")
	if next == nil {
		c.Unresolved("R4.1", "coordinatorState.next not found")
		return
	}
	n := 0
	var names []string
	for name := range d.methods {
		names = append(names, name)
	}
	sort.Strings(names)
	for _, name := range names {
		fn := d.methods[name]
		if !returnsJob(fn) {
			continue
		}
		e := effectsOf(fn)
		if len(e.stores[next]) == 0 {
			continue
		}
		n++
		c.SawFunc(fn)
		kinds := d.jobKindsReturned(fn, 0)
		for k := range kinds {
			c.Ob("R4.1", name+":"+k, covered[k] != "", p.Pos(fn.Pos()),
				fmt.Sprintf("%s advances the cursor `next` and creates a %s; newCheckpoint coverage: %q", name, k, covered[k]))
		}
		if len(kinds) == 0 {
			c.Ob("R4.1", name+":kind", false, p.Pos(fn.Pos()), "advances the cursor and returns a job whose kind is not a constant")
		}
	}
	c.Floor("R4.1", "cursor-advancing job constructors", n, 2)
	// resume range copied unchanged: workerCheckpoint{From: w.Curr, To: w.To}
	nwc := 0
	for _, b := range nc.Blocks {
		for _, ins := range b.Instrs {
			st, ok := ins.(*ssa.Store)
			if !ok {
				continue
			}
			fa, ok := st.Addr.(*ssa.FieldAddr)
			if !ok || fieldOf(fa) == nil || derefNamed(fa.X.Type()) == nil || derefNamed(fa.X.Type()).Obj().Name() != "workerCheckpoint" {
				continue
			}
			want := map[string]string{"From": "Curr", "To": "To", "JobType": "JobType"}[fieldOf(fa).Name()]
			if want == "" {
				continue
			}
			nwc++
			src := ""
			switch v := st.Val.(type) {
			case *ssa.Field:
				src = fieldOfVal(v).Name()
			case *ssa.UnOp:
				if f := fieldOfAddr(v); f != nil {
					src = f.Name()
				}
			}
			c.Ob("R4.1", "workerCheckpoint."+fieldOf(fa).Name(), src == want, p.Pos(st.Pos()),
				fmt.Sprintf("persisted %s is the worker's %s copied without arithmetic (got source %q)", fieldOf(fa).Name(), want, src))
		}
	}
	c.Floor("R4.1", "workerCheckpoint field stores", nwc, 3)

	c04SingleOwner(c, d)
	c04StopOrdering(c, d)
	dasJobsRun(c, d, "R4.3")
}

func flowsToField(fn *ssa.Function, v ssa.Value, field string) bool {
	for _, b := range fn.Blocks {
		for _, ins := range b.Instrs {
			if st, ok := ins.(*ssa.Store); ok {
				if fa, ok := st.Addr.(*ssa.FieldAddr); ok && fieldOf(fa) != nil && fieldOf(fa).Name() == field {
					if backSlice(st.Val, SliceOpt{}).Vals[v] {
						return true
					}
				}
			}
		}
	}
	return false
}

func c04SingleOwner(c *Check, d *dasCtx) {
	p := c.P
	allowed := map[*ssa.Function]bool{d.run: true}
	if rw := p.Func("das", "samplingCoordinator", "runWorker"); rw != nil {
		allowed[rw] = true
	}
	for _, f := range d.methods {
		allowed[f] = true
	}
	if f := p.Func("das", "", "newCoordinatorState"); f != nil {
		allowed[f] = true
	}
	if f := p.Func("das", "", "newSamplingCoordinator"); f != nil {
		allowed[f] = true
	}
	st := d.stateT.Underlying().(*types.Struct)
	isStateField := map[*types.Var]bool{}
	for i := 0; i < st.NumFields(); i++ {
		isStateField[st.Field(i)] = true
	}
	writers := map[*ssa.Function]bool{}
	for _, f := range d.methods {
		e := effectsOf(f)
		for fv := range isStateField {
			if e.writes(fv) {
				writers[f] = true
			}
		}
	}
	// transitive: a method calling a writer is a writer
	for changed := true; changed; {
		changed = false
		for _, f := range d.methods {
			if writers[f] {
				continue
			}
			for _, b := range f.Blocks {
				for _, ins := range b.Instrs {
					if cl, ok := ins.(ssa.CallInstruction); ok && writers[cl.Common().StaticCallee()] {
						writers[f] = true
						changed = true
					}
				}
			}
		}
	}
	c.Floor("R4.2", "state-writing methods", len(writers), 8)
	n := 0
	for _, f := range p.FuncsOfPkg("das") {
		for _, b := range f.Blocks {
			for _, ins := range b.Instrs {
				// direct field writes outside the state's own methods
				if !allowed[rootFunc(f)] && !allowed[f] && !p.onlyCalledFrom(f, func(g *ssa.Function) bool { return allowed[g] }, 0) {
					var fv *types.Var
					switch x := ins.(type) {
					case *ssa.Store:
						fv = fieldOfAddr(x.Addr)
					case *ssa.MapUpdate:
						fv = fieldOfAddr(x.Map)
					}
					if fv != nil && isStateField[fv] {
						c.Ob("R4.2", "write:"+fv.Name()+"@"+fnName(f), false, p.Pos(ins.Pos()), "coordinatorState field written outside the coordinator goroutine's functions")
					}
				}
				cl, ok := ins.(ssa.CallInstruction)
				if !ok {
					continue
				}
				callee := cl.Common().StaticCallee()
				if callee == nil || !writers[callee] {
					continue
				}
				n++
				okSite := allowed[f] || (f.Parent() != nil && allowed[rootFunc(f)] && rootFunc(f) != d.run) ||
					p.onlyCalledFrom(f, func(g *ssa.Function) bool { return allowed[g] }, 0)
				// closures of run would be separate goroutines: only run itself is allowed
				if f == d.run {
					okSite = true
				}
				c.Ob("R4.2", callee.Name()+"@"+fnName(f), okSite, p.Pos(cl.Pos()), "state-writing method called from the coordinator goroutine's own functions")
			}
		}
	}
	c.Floor("R4.2", "call sites of state-writing methods", n, 10)
}

func c04StopOrdering(c *Check, d *dasCtx) {
	p := c.P
	stop := p.Func("das", "DASer", "Stop")
	if stop == nil {
		c.Unresolved("R4.3", "DASer.Stop not found")
		return
	}
	c.SawFunc(stop)
	// target: the block where unsafeStats is called (the final checkpoint)
	tg := blocksWhere(stop, func(ins ssa.Instruction) bool {
		cl, ok := ins.(*ssa.Call)
		return ok && cl.Call.StaticCallee() != nil && cl.Call.StaticCallee().Name() == "unsafeStats"
	})
	c.Floor("R4.3", "final unsafeStats checkpoint in Stop", len(tg), 1)
	// (a) behind successful wait for the sampler
	waitCut := callGates(func(cl *ssa.Call, idx int) GateKind {
		if f := cl.Call.StaticCallee(); f != nil && f.Name() == "wait" && len(cl.Call.Args) >= 1 {
			// receiver is d.sampler's embedded done
			sl := backSlice(cl.Call.Args[0], SliceOpt{})
			if sl.HasFieldNamed("DASer", "sampler") {
				return GateErr
			}
		}
		return NotGate
	})
	res := gateWalk(p, stop, tg, waitCut, nil)
	c.Ob("R4.3", "final checkpoint after sampler.wait", !res.Reached, p.Pos(stop.Pos()), "unsynchronised state read only after the coordinator and workers have stopped", res.Witness...)
	// (b) every path passes d.cancel()
	barrier := blocksWhere(stop, func(ins ssa.Instruction) bool {
		cl, ok := ins.(*ssa.Call)
		if !ok {
			return false
		}
		f := fieldOfAddr(cl.Call.Value)
		return f != nil && f.Name() == "cancel"
	})
	res = gateWalkBarrier(p, stop, tg, nil, barrier)
	c.Ob("R4.3", "final checkpoint after cancel", !res.Reached && len(barrier) > 0, p.Pos(stop.Pos()), "d.cancel() precedes the final checkpoint on every path", res.Witness...)
}

// dasJobsRun: every job obtained from a coordinatorState constructor inside
// run is handed to runWorker on every path before control reaches the select.
func dasJobsRun(c *Check, d *dasCtx, rule string) {
	p := c.P
	run := d.run
	c.SawFunc(run)
	var selectBlocks = blocksWhere(run, func(ins ssa.Instruction) bool { _, ok := ins.(*ssa.Select); return ok })
	rw := p.Func("das", "samplingCoordinator", "runWorker")
	if rw == nil || len(selectBlocks) == 0 {
		c.Unresolved(rule, "runWorker or the coordinator's select not found")
		return
	}
	n := 0
	for _, b := range run.Blocks {
		for _, ins := range b.Instrs {
			cl, ok := ins.(*ssa.Call)
			if !ok || cl.Call.StaticCallee() == nil || !returnsJob(cl.Call.StaticCallee()) {
				continue
			}
			n++
			name := cl.Call.StaticCallee().Name()
			// consumer: runWorker whose job argument derives from this call
			consumers := blocksWhere(run, func(i2 ssa.Instruction) bool {
				c2, ok := i2.(*ssa.Call)
				if !ok || c2.Call.StaticCallee() != rw {
					return false
				}
				return backSlice(c2.Call.Args[len(c2.Call.Args)-1], SliceOpt{}).Vals[cl]
			})
			// "not found" edge of (job, bool) constructors is not an obligation
			cut := func(bb *ssa.BasicBlock, ifi *ssa.If) (bool, bool) {
				a := stripNot(ifi.Cond)
				if ex, ok := a.Base.(*ssa.Extract); ok && ex.Tuple == ssa.Value(cl) {
					// cond true (after neg) means found==true xor neg
					if a.Neg {
						return true, false // !found true -> not found: cut
					}
					return false, true
				}
				return false, false
			}
			ok2 := true
			var wit []string
			if consumers[b] && consumerAfter(b, cl, rw) {
				// same block, call first then runWorker
			} else {
				targets := map[*ssa.BasicBlock]bool{}
				for sb := range selectBlocks {
					targets[sb] = true
				}
				for _, r := range returnsOf(run) {
					targets[r.Block()] = true
				}
				// start after the call: walk from each successor of b
				for _, s := range b.Succs {
					res := gateWalkOpts(p, run, targets, cut, s, consumers)
					_ = res
				}
				res := gateWalkFrom(p, run, b, targets, cut, consumers)
				ok2 = !res.Reached
				wit = res.Witness
			}
			c.Ob(rule, "job from "+name+" is run", ok2, p.Pos(cl.Pos()), "a created job reaches runWorker before the coordinator returns to its select (creating it may have moved the cursor)", wit...)
		}
	}
	c.Floor(rule, "job constructor calls in coordinator.run", n, 3)
}

func consumerAfter(b *ssa.BasicBlock, call ssa.Instruction, rw *ssa.Function) bool {
	seen := false
	for _, ins := range b.Instrs {
		if ins == call {
			seen = true
		}
		if c2, ok := ins.(*ssa.Call); ok && seen && c2.Call.StaticCallee() == rw {
			return true
		}
	}
	return false
}

// gateWalkFrom walks from the end of block b (its successors), honouring b's own
// terminator cut.
func gateWalkFrom(p *Program, fn *ssa.Function, b *ssa.BasicBlock, targets map[*ssa.BasicBlock]bool, cut EdgeCut, barrier map[*ssa.BasicBlock]bool) GateResult {
	t2 := map[*ssa.BasicBlock]bool{}
	for k, v := range targets {
		if k != b {
			t2[k] = v
		}
	}
	b2 := map[*ssa.BasicBlock]bool{}
	for k, v := range barrier {
		if k != b {
			b2[k] = v
		}
	}
	return gateWalkOpts(p, fn, t2, cut, b, b2)
}

// ---------------- C13 ----------------

func runC13(c *Check) {
	p := c.P
	c.Rule("R13.1", "worker returns without reporting only behind a test of its own context")
	c.Rule("R13.2", "runWorker call sites are guarded by the concurrency predicates; predicates have the configured shape; created jobs are run")
	c.Rule("R13.3", "state mutations that can complete catch-up are followed by checkDone before the coordinator's select")
	c.Rule("R13.4", "retry attempts: read before cleanup, derive from the previous attempt, only increment")
	d := newDasCtx(c, "R13.2")
	if d == nil {
		return
	}
	// R13.1
	wr := p.Func("das", "worker", "run")
	if wr == nil {
		c.Unresolved("R13.1", "das.(*worker).run not found")
	} else {
		c.SawFunc(wr)
		var resCh *ssa.Parameter
		var ctxP *ssa.Parameter
		for _, pm := range wr.Params {
			if _, ok := pm.Type().Underlying().(*types.Chan); ok {
				resCh = pm
			}
			if pm.Type().String() == "context.Context" {
				ctxP = pm
			}
		}
		if resCh == nil || ctxP == nil {
			c.Unresolved("R13.1", "worker.run signature: result channel / ctx parameter not found")
		} else {
			sends := blocksWhere(wr, func(ins ssa.Instruction) bool {
				switch x := ins.(type) {
				case *ssa.Send:
					return x.Chan == ssa.Value(resCh)
				case *ssa.Select:
					for _, st := range x.States {
						if st.Dir == types.SendOnly && st.Chan == ssa.Value(resCh) {
							return true
						}
					}
				}
				return false
			})
			c.Floor("R13.1", "sends on the result channel", len(sends), 1)
			ownCtx := func(b *ssa.BasicBlock, ifi *ssa.If) (bool, bool) {
				sl := backSlice(ifi.Cond, SliceOpt{CallArgs: true})
				has := sl.Has(func(v ssa.Value) bool {
					cl, ok := v.(*ssa.Call)
					if !ok || !cl.Call.IsInvoke() || cl.Call.Value != ssa.Value(ctxP) {
						return false
					}
					return cl.Call.Method.Name() == "Err" || cl.Call.Method.Name() == "Done"
				})
				if !has {
					return false, false
				}
				// the side on which ctx is done: `ctx.Err() != nil` true
				if x, eq, ok := nilTest(ifi.Cond); ok {
					_ = x
					return !eq, eq
				}
				return true, true
			}
			for _, r := range returnsOf(wr) {
				res := gateWalkBarrier(p, wr, map[*ssa.BasicBlock]bool{r.Block(): true}, ownCtx, sends)
				if sends[r.Block()] {
					continue
				}
				c.Ob("R13.1", fmt.Sprintf("return@block%d", r.Block().Index), !res.Reached, p.Pos(r.Pos()),
					"this return is reached either after the result was offered on the result channel or across a test of the worker's own ctx", res.Witness...)
			}
		}
	}
	// R13.2
	c13Limits(c, d)
	dasJobsRun(c, d, "R13.2")
	// R13.3
	c13DoneCheck(c, d)
	// R13.4
	c13Attempts(c, d)
	c13JobIDs(c)
}

func c13Limits(c *Check, d *dasCtx) {
	p := c.P
	run := d.run
	rw := p.Func("das", "samplingCoordinator", "runWorker")
	cl1 := p.Func("das", "samplingCoordinator", "concurrencyLimitReached")
	cl2 := p.Func("das", "samplingCoordinator", "recentJobsLimitReached")
	if rw == nil || cl1 == nil || cl2 == nil {
		c.Unresolved("R13.2", "runWorker / limit predicates not found")
		return
	}
	c.SawFunc(rw)
	c.SawFunc(cl1)
	c.SawFunc(cl2)
	limitCut := callGates(func(cl *ssa.Call, idx int) GateKind {
		if f := cl.Call.StaticCallee(); f == cl1 || f == cl2 {
			return GateFalse
		}
		return NotGate
	})
	n := 0
	for _, b := range run.Blocks {
		for _, ins := range b.Instrs {
			cl, ok := ins.(*ssa.Call)
			if !ok || cl.Call.StaticCallee() != rw {
				continue
			}
			n++
			// exception: the resume loop - the job derives from the checkpoint parameter's Workers
			js := backSlice(cl.Call.Args[len(cl.Call.Args)-1], SliceOpt{CallArgs: true})
			if js.HasFieldNamed("checkpoint", "Workers") {
				c.Ob("R13.2", "runWorker@resume", true, p.Pos(cl.Pos()), "exception: resumed workers were admitted under the previous run's limit")
				continue
			}
			res := gateWalk(p, run, map[*ssa.BasicBlock]bool{b: true}, limitCut, nil)
			kind := "catchup/retry"
			if js.Has(func(v ssa.Value) bool {
				c2, ok := v.(*ssa.Call)
				return ok && c2.Call.StaticCallee() != nil && c2.Call.StaticCallee().Name() == "recentJob"
			}) {
				kind = "recent"
			}
			c.Ob("R13.2", "runWorker@"+kind, !res.Reached, p.Pos(cl.Pos()), "reachable only across the false edge of a concurrency-limit predicate", res.Witness...)
		}
	}
	c.Floor("R13.2", "runWorker call sites", n, 3)
	// predicate shapes
	shape := func(fn *ssa.Function, mult int64) (bool, string) {
		rets := returnsOf(fn)
		if len(rets) != 1 {
			return false, "more than one return"
		}
		bo, ok := rets[0].Results[0].(*ssa.BinOp)
		if !ok || bo.Op != token.GEQ {
			return false, "not a >= comparison"
		}
		if !isLenCall(bo.X) || fieldOfAddr(bo.X.(*ssa.Call).Call.Args[0]) == nil || fieldOfAddr(bo.X.(*ssa.Call).Call.Args[0]).Name() != "inProgress" {
			return false, "left side is not len(inProgress)"
		}
		rhs := bo.Y
		if mult != 1 {
			m, ok := rhs.(*ssa.BinOp)
			if !ok || m.Op != token.MUL {
				return false, "right side is not a product"
			}
			var k *ssa.Const
			if kk, ok := m.X.(*ssa.Const); ok {
				k, rhs = kk, m.Y
			} else if kk, ok := m.Y.(*ssa.Const); ok {
				k, rhs = kk, m.X
			}
			if k == nil || k.Int64() != mult {
				return false, "multiplier is not the expected constant"
			}
		}
		if f := fieldOfAddr(rhs); f == nil || f.Name() != "concurrencyLimit" {
			return false, "right side is not the configured concurrencyLimit"
		}
		return true, "len(inProgress) >= " + fmt.Sprint(mult) + "*concurrencyLimit"
	}
	ok1, w1 := shape(cl1, 1)
	c.Ob("R13.2", "concurrencyLimitReached shape", ok1, p.Pos(cl1.Pos()), w1)
	ok2, w2 := shape(cl2, 2)
	c.Ob("R13.2", "recentJobsLimitReached shape", ok2, p.Pos(cl2.Pos()), w2)
}

func c13DoneCheck(c *Check, d *dasCtx) {
	p := c.P
	cd := d.methods["checkDone"]
	if cd == nil {
		c.Unresolved("R13.3", "checkDone not found")
		return
	}
	c.SawFunc(cd)
	// inputs of checkDone: state fields it loads
	inputs := map[*types.Var]bool{}
	st := d.stateT.Underlying().(*types.Struct)
	isState := map[*types.Var]bool{}
	for i := 0; i < st.NumFields(); i++ {
		isState[st.Field(i)] = true
	}
	for f := range effectsOf(cd).loads {
		if isState[f] && !strings.HasPrefix(f.Name(), "catchUpDone") {
			inputs[f] = true
		}
	}
	var in []string
	for f := range inputs {
		in = append(in, f.Name())
	}
	sort.Strings(in)
	c.Note("inputs of checkDone: %v", in)
	c.Floor("R13.3", "inputs of checkDone", len(inputs), 4)
	c13DonePredicate(c, cd)
	// callsDone[f]: every path through f to a return passes checkDone
	callsDone := func(f *ssa.Function) bool {
		bar := blocksWhere(f, func(ins ssa.Instruction) bool {
			cl, ok := ins.(*ssa.Call)
			return ok && cl.Call.StaticCallee() == cd
		})
		if len(bar) == 0 {
			return false
		}
		tg := map[*ssa.BasicBlock]bool{}
		for _, r := range returnsOf(f) {
			if !bar[r.Block()] { // a return in the block of the call comes after it
				tg[r.Block()] = true
			}
		}
		res := gateWalkBarrier(p, f, tg, nil, bar)
		return !res.Reached
	}
	writesInput := func(f *ssa.Function, depth int) bool { return false }
	var wi func(f *ssa.Function, depth int) bool
	wi = func(f *ssa.Function, depth int) bool {
		if depth > 3 {
			return false
		}
		e := effectsOf(f)
		for fv := range inputs {
			if e.writes(fv) {
				return true
			}
		}
		for _, b := range f.Blocks {
			for _, ins := range b.Instrs {
				if cl, ok := ins.(*ssa.Call); ok {
					if cal := cl.Call.StaticCallee(); cal != nil && cal != cd && d.methods[cal.Name()] == cal && wi(cal, depth+1) {
						return true
					}
				}
			}
		}
		return false
	}
	writesInput = wi
	run := d.run
	selectBlocks := blocksWhere(run, func(ins ssa.Instruction) bool { _, ok := ins.(*ssa.Select); return ok })
	doneBlocks := blocksWhere(run, func(ins ssa.Instruction) bool {
		cl, ok := ins.(*ssa.Call)
		if !ok || cl.Call.StaticCallee() == nil {
			return false
		}
		cal := cl.Call.StaticCallee()
		return cal == cd || (d.methods[cal.Name()] == cal && callsDone(cal))
	})
	n := 0
	for _, b := range run.Blocks {
		for _, ins := range b.Instrs {
			cl, ok := ins.(*ssa.Call)
			if !ok {
				continue
			}
			cal := cl.Call.StaticCallee()
			if cal == nil || d.methods[cal.Name()] != cal || cal == cd {
				continue
			}
			if !writesInput(cal, 0) {
				continue
			}
			if returnsJob(cal) {
				c.Ob("R13.3", cal.Name()+" (job constructor)", true, p.Pos(cl.Pos()), "exempt: creates a job that R13.2 shows is always run (adds in-progress work)")
				continue
			}
			e := effectsOf(cal)
			onlyAdds := true
			for fv := range inputs {
				if len(e.stores[fv]) > 0 || len(e.deletes[fv]) > 0 {
					onlyAdds = false
				}
			}
			if onlyAdds {
				c.Ob("R13.3", cal.Name()+" (adds only)", true, p.Pos(cl.Pos()), "exempt: only inserts into a work map")
				continue
			}
			n++
			if callsDone(cal) {
				c.Ob("R13.3", cal.Name(), true, p.Pos(cl.Pos()), "calls checkDone itself on every path")
				continue
			}
			// followed by a done-check before the select on every path
			okAfter := false
			var wit []string
			if doneBlocks[b] {
				// same block: is there a done call after this one?
				seen := false
				for _, i2 := range b.Instrs {
					if i2 == ins {
						seen = true
						continue
					}
					if c2, ok := i2.(*ssa.Call); ok && seen {
						c2c := c2.Call.StaticCallee()
						if c2c == cd || (c2c != nil && d.methods[c2c.Name()] == c2c && callsDone(c2c)) {
							okAfter = true
						}
					}
				}
			}
			if !okAfter {
				res := gateWalkFrom(p, run, b, selectBlocks, nil, doneBlocks)
				okAfter = !res.Reached
				wit = res.Witness
			}
			c.Ob("R13.3", cal.Name(), okAfter, p.Pos(cl.Pos()),
				"writes an input of checkDone and can complete catch-up: checkDone must run before the coordinator blocks in select", wit...)
		}
	}
	c.Floor("R13.3", "done-check obligations in coordinator.run", n, 3)
}

func c13Attempts(c *Check, d *dasCtx) {
	p := c.P
	// (a) read-before-delete on every state map in every method
	var names []string
	for n := range d.methods {
		names = append(names, n)
	}
	sort.Strings(names)
	checked := 0
	for _, name := range names {
		fn := d.methods[name]
		e := effectsOf(fn)
		for fv, dels := range e.deletes {
			lks := e.lookups[fv]
			if len(lks) == 0 {
				continue
			}
			checked++
			bad := false
			var wit []string
			for _, dl := range dels {
				for _, lk := range lks {
					if dl.Block() == lk.Block() {
						// order inside the block
						for _, ins := range dl.Block().Instrs {
							if ins == dl {
								bad = true
								break
							}
							if ins == lk {
								break
							}
						}
						continue
					}
					res := gateWalkFrom(p, fn, dl.Block(), map[*ssa.BasicBlock]bool{lk.Block(): true}, nil, nil)
					if res.Reached {
						bad = true
						wit = res.Witness
					}
				}
			}
			c.Ob("R13.4", name+":"+fv.Name()+" read-before-delete", !bad, p.Pos(fn.Pos()),
				"no lookup of "+fv.Name()+" is reachable after a delete from "+fv.Name()+" in the same call (the previous attempt is read before the cleanup)", wit...)
		}
	}
	c.Floor("R13.4", "methods that both read and delete a state map", checked, 1)
	// (b) handleRetryResult: failed[h] = nextRetry(inRetry[h], ...)
	hr := d.methods["handleRetryResult"]
	nr := p.Func("das", "retryStrategy", "nextRetry")
	if hr == nil || nr == nil {
		c.Unresolved("R13.4", "handleRetryResult / nextRetry not found")
		return
	}
	c.SawFunc(hr)
	c.SawFunc(nr)
	e := effectsOf(hr)
	failedF := d.stateField("failed")
	inRetryF := d.stateField("inRetry")
	nUpd := 0
	for _, u := range e.updates[failedF] {
		mu := u.(*ssa.MapUpdate)
		nUpd++
		sl := backSlice(mu.Value, SliceOpt{CallArgs: true})
		viaNext := sl.Has(func(v ssa.Value) bool {
			cl, ok := v.(*ssa.Call)
			return ok && cl.Call.StaticCallee() == nr
		})
		fromInRetry := sl.Has(func(v ssa.Value) bool {
			lk, ok := v.(*ssa.Lookup)
			return ok && fieldOfAddr(lk.X) == inRetryF && lk.Index == mu.Key
		})
		c.Ob("R13.4", "handleRetryResult: failed[h]", viaNext && fromInRetry, p.Pos(mu.Pos()), "the attempt stored for a height that failed again is nextRetry(inRetry[h]) for the same h")
	}
	c.Floor("R13.4", "updates of failed in handleRetryResult", nUpd, 1)
	// (c) nextRetry only increments count
	cnt := 0
	okInc := true
	for _, b := range nr.Blocks {
		for _, ins := range b.Instrs {
			st, ok := ins.(*ssa.Store)
			if !ok {
				continue
			}
			fa, ok := st.Addr.(*ssa.FieldAddr)
			if !ok || fieldOf(fa) == nil || fieldOf(fa).Name() != "count" {
				continue
			}
			cnt++
			bo, ok := st.Val.(*ssa.BinOp)
			if !ok || bo.Op != token.ADD {
				okInc = false
				continue
			}
			k, isK := bo.Y.(*ssa.Const)
			ld, isL := bo.X.(*ssa.UnOp)
			if !isK || k.Int64() < 1 || !isL || ld.X != ssa.Value(fa) && fieldOfAddr(ld) == nil {
				okInc = false
			}
		}
	}
	c.Ob("R13.4", "nextRetry increments count", cnt >= 1 && okInc, p.Pos(nr.Pos()), fmt.Sprintf("%d store(s) to retryAttempt.count, each count+k with k>=1", cnt))
	// the returned attempt is the incremented parameter
	for _, r := range returnsOf(nr) {
		sl := backSlice(r.Results[0], SliceOpt{})
		c.Ob("R13.4", fmt.Sprintf("nextRetry return@block%d", r.Block().Index), sl.Vals[nr.Params[1]], p.Pos(r.Pos()), "returned attempt derives from the previous attempt parameter")
	}
}

// c13DonePredicate: catch-up is declared done (the flag is set / the channel closed)
// only across: nothing in progress, nothing failed, and the cursor STRICTLY past the
// network head. `next` is the first height not yet handed out, so next == head means
// the head itself is still to be sampled; a non-strict comparison declares catch-up
// done one height early.
func c13DonePredicate(c *Check, cd *ssa.Function) {
	p := c.P
	// the "done" action: CompareAndSwap(false, true) on catchUpDone / close of the channel
	done := blocksWhere(cd, func(ins ssa.Instruction) bool {
		g, ok := ins.(*ssa.Call)
		if !ok {
			return false
		}
		if bi, ok := g.Call.Value.(*ssa.Builtin); ok && bi.Name() == "close" {
			return true
		}
		o := calleeObj(&g.Call)
		return o != nil && o.Name() == "CompareAndSwap"
	})
	c.Floor("R13.3", "done actions in checkDone", len(done), 1)
	lenZero := func(field string) EdgeCut {
		return func(b *ssa.BasicBlock, ifi *ssa.If) (bool, bool) {
			a := stripNot(ifi.Cond)
			bo, ok := a.Base.(*ssa.BinOp)
			if !ok || (bo.Op != token.EQL && bo.Op != token.NEQ) || !isLenCall(bo.X) {
				return false, false
			}
			k, ok := bo.Y.(*ssa.Const)
			if !ok || k.Value == nil || k.Int64() != 0 || !backSlice(bo.X, SliceOpt{CallArgs: true}).HasFieldNamed("coordinatorState", field) {
				return false, false
			}
			isZeroOnTrue := (bo.Op == token.EQL) != a.Neg
			return isZeroOnTrue, !isZeroOnTrue
		}
	}
	strictlyPast := func(b *ssa.BasicBlock, ifi *ssa.If) (bool, bool) {
		a := stripNot(ifi.Cond)
		bo, ok := a.Base.(*ssa.BinOp)
		if !ok {
			return false, false
		}
		isF := func(v ssa.Value, name string) bool {
			return backSlice(v, SliceOpt{}).HasFieldNamed("coordinatorState", name)
		}
		plusOne := func(v ssa.Value, name string) bool {
			ad, ok := v.(*ssa.BinOp)
			if !ok || ad.Op != token.ADD {
				return false
			}
			k, ok := ad.Y.(*ssa.Const)
			return ok && k.Value != nil && k.Int64() == 1 && isF(ad.X, name)
		}
		pure := func(v ssa.Value, name string) bool {
			_, isBin := v.(*ssa.BinOp)
			return !isBin && isF(v, name)
		}
		strict := false
		switch bo.Op {
		case token.GTR:
			strict = pure(bo.X, "next") && pure(bo.Y, "networkHead")
		case token.LSS:
			strict = pure(bo.X, "networkHead") && pure(bo.Y, "next")
		case token.GEQ:
			strict = pure(bo.X, "next") && plusOne(bo.Y, "networkHead")
		case token.LEQ:
			strict = plusOne(bo.X, "networkHead") && pure(bo.Y, "next")
		}
		if !strict {
			return false, false
		}
		return !a.Neg, a.Neg
	}
	for _, g := range []struct {
		name string
		cut  EdgeCut
		why  string
	}{
		{"nothing in progress", lenZero("inProgress"), "len(inProgress) == 0"},
		{"nothing failed", lenZero("failed"), "len(failed) == 0"},
		{"cursor strictly past the head", strictlyPast, "next > networkHead (strict: next is the first height not yet handed out)"},
	} {
		res := gateWalk(p, cd, done, g.cut, nil)
		c.Ob("R13.3", "done only if "+g.name, !res.Reached, p.Pos(cd.Pos()), "catch-up is declared done only across "+g.why, res.Witness...)
	}
}

// c13JobIDs (R13.5): in-progress workers are tracked in a map keyed by job id, so two
// live jobs with the same id hide one worker from the concurrency bound, the stats,
// the checkpoint and the done test. Every function that builds a job takes its id
// from the nextJobID counter, increments the counter exactly once, and all of them
// agree on the order (id read after the increment in all, or before it in all) - a
// constructor that post-increments next to one that pre-increments hands out the
// same id twice.
func c13JobIDs(c *Check) {
	p := c.P
	c.Rule("R13.5", "job ids come from one counter with one discipline in every job constructor (ids are unique)")
	style := map[string]string{}
	n := 0
	for _, f := range p.FuncsOfPkg("das") {
		var idStores []*ssa.Store
		for _, b := range f.Blocks {
			for _, ins := range b.Instrs {
				st, ok := ins.(*ssa.Store)
				if !ok {
					continue
				}
				fa, ok := st.Addr.(*ssa.FieldAddr)
				if ok && fieldOf(fa) != nil && fieldOf(fa).Name() == "id" && ownerName(fa) == "job" {
					idStores = append(idStores, st)
				}
			}
		}
		if len(idStores) == 0 {
			continue
		}
		// increments of the counter in this function
		var incs []*ssa.Store
		for _, b := range f.Blocks {
			for _, ins := range b.Instrs {
				st, ok := ins.(*ssa.Store)
				if !ok {
					continue
				}
				fa, ok := st.Addr.(*ssa.FieldAddr)
				if ok && fieldOf(fa) != nil && fieldOf(fa).Name() == "nextJobID" {
					incs = append(incs, st)
				}
			}
		}
		for _, st := range idStores {
			n++
			c.SawFunc(f)
			key := "job.id@" + fnName(f)
			// copying an existing job (id from another job's id field) is not a construction
			sl := backSlice(st.Val, SliceOpt{})
			if !sl.HasFieldNamed("coordinatorState", "nextJobID") {
				fromJob := sl.HasFieldNamed("job", "id")
				c.Ob("R13.5", key, fromJob, p.Pos(st.Pos()), "the id is the counter's value (or copied from an existing job)")
				continue
			}
			if len(incs) != 1 {
				c.Ob("R13.5", key, false, p.Pos(st.Pos()), fmt.Sprintf("the constructor increments nextJobID exactly once (found %d stores)", len(incs)))
				continue
			}
			inc := incs[0]
			// the load that yields the id
			var ld *ssa.UnOp
			for v := range sl.Vals {
				if u, ok := v.(*ssa.UnOp); ok && u.Op == token.MUL {
					if fa, ok := u.X.(*ssa.FieldAddr); ok && fieldOf(fa) != nil && fieldOf(fa).Name() == "nextJobID" {
						ld = u
					}
				}
			}
			st2 := "before"
			if ld != nil && (precedesInBlock(inc, ld) || (inc.Block() != ld.Block() && inc.Block().Dominates(ld.Block()))) {
				st2 = "after"
			}
			// the incremented value itself used as id
			if sl.Vals[inc.Val] {
				st2 = "after"
			}
			style[fnName(f)] = st2
			c.Ob("R13.5", key, true, p.Pos(st.Pos()), "id read "+st2+" the single increment of nextJobID")
		}
	}
	c.Floor("R13.5", "job constructions", n, 2)
	first := ""
	agree := true
	for _, v := range style {
		if first == "" {
			first = v
		} else if v != first {
			agree = false
		}
	}
	c.Ob("R13.5", "constructors agree on the counter discipline", agree && len(style) >= 2, "-", fmt.Sprintf("id taken relative to the increment: %v", style))
}

// c04EveryCatchupWorker: newCheckpoint persists EVERY catch-up worker of the stats:
// on the catchupJob side of the job-type test, each iteration reaches the append of
// the worker's range unconditionally. A worker's Curr is initialised to the first
// height of its range, so "Curr == To" does not mean finished; any further condition
// in front of the append drops an in-flight height from the checkpoint.
func c04EveryCatchupWorker(c *Check, nc *ssa.Function) {
	p := c.P
	var side *ssa.BasicBlock
	for _, b := range nc.Blocks {
		ifi, ok := b.Instrs[len(b.Instrs)-1].(*ssa.If)
		if !ok {
			continue
		}
		a := stripNot(ifi.Cond)
		bo, ok := a.Base.(*ssa.BinOp)
		if !ok || (bo.Op != token.EQL && bo.Op != token.NEQ) {
			continue
		}
		k, isK := bo.Y.(*ssa.Const)
		if !isK || jobTypeConstName(p, k) != "catchupJob" {
			continue
		}
		eqOnTrue := (bo.Op == token.EQL) != a.Neg
		if eqOnTrue {
			side = b.Succs[0]
		} else {
			side = b.Succs[1]
		}
	}
	if side == nil {
		c.Ob("R4.1", "every catch-up worker persisted", false, p.Pos(nc.Pos()), "newCheckpoint tests the job type against catchupJob")
		return
	}
	appends := blocksWhere(nc, func(ins ssa.Instruction) bool {
		g, ok := ins.(*ssa.Call)
		if !ok {
			return false
		}
		bi, ok := g.Call.Value.(*ssa.Builtin)
		if !ok || bi.Name() != "append" {
			return false
		}
		sl, ok := g.Type().Underlying().(*types.Slice)
		if !ok {
			return false
		}
		n, ok := sl.Elem().(*types.Named)
		return ok && n.Obj().Name() == "workerCheckpoint"
	})
	if appends[side] {
		c.Ob("R4.1", "every catch-up worker persisted", true, p.Pos(nc.Pos()), "the worker is appended first thing on the catchupJob side")
		return
	}
	targets := map[*ssa.BasicBlock]bool{}
	for _, b := range nc.Blocks {
		if b.Comment == "rangeindex.loop" || b.Comment == "rangeiter.loop" {
			targets[b] = true
		}
	}
	for _, r := range returnsOf(nc) {
		targets[r.Block()] = true
	}
	res := gateWalkOpts(p, nc, targets, nil, side, appends)
	c.Ob("R4.1", "every catch-up worker persisted", len(appends) > 0 && !res.Reached, p.Pos(nc.Pos()),
		"on the catchupJob side every path through an iteration passes the append of the worker's range (no further condition decides whether an in-flight worker is persisted)", res.Witness...)
}
