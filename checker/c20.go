package main

import (
	"fmt"
	"go/token"
	"go/types"
	"sort"
	"strings"

	"golang.org/x/tools/go/ssa"
)

func init() {
	register("C20", runC20,
		"Structural necessary conditions of 'one response per header, in order, and prompt termination', decided on the SSA of the goroutine started by blob.Service.Subscribe. R20.1 one send per header: every path from the header-receive case back to the outer select crosses a send on the response channel (no header is skipped) and no path crosses two sends; the response's Height and Header derive from the header received in this iteration and its Blobs from getAll called with that header. R20.2 retry exit: the send is reachable from the header receipt only across getAll's err==nil edge. R20.3 close discipline: the response channel is closed exactly once, by a defer in the only goroutine that sends on it. R20.4 overflow first: getAll is reachable only across the 'buffer not full' side of the len==cap test. R20.5 termination signals (sibling rule): every loop nested inside the goroutine's outer loop consults every cancellation source that the outer select observes (the subscriber's ctx and the service's ctx), otherwise a failing retrieval keeps spinning after the service stopped. Not decided: actual ordering/duplication under schedules, header-feed behaviour, promptness in time.",
		"the header subscription delivers headers in order (C16/go-header)")
}

const pkgBlob = modPath + "/blob"

func runC20(c *Check) {
	p := c.P
	c.Rule("R20.1", "exactly one send per received header; response fields derive from that header")
	c.Rule("R20.2", "the send is reached only across getAll success")
	c.Rule("R20.3", "response channel closed exactly once by a defer in the only sending goroutine")
	c.Rule("R20.4", "buffer-overflow test precedes retrieval")
	c.Rule("R20.5", "every nested loop observes all cancellation sources of the outer select")
	sub := p.Func("blob", "Service", "Subscribe")
	if sub == nil {
		c.Unresolved("R20.1", "blob.(*Service).Subscribe not found")
		return
	}
	c.SawFunc(sub)
	// the goroutine body: closure started by `go` in Subscribe
	var body *ssa.Function
	for _, b := range sub.Blocks {
		for _, ins := range b.Instrs {
			if g, ok := ins.(*ssa.Go); ok {
				if mc, ok := g.Call.Value.(*ssa.MakeClosure); ok {
					body, _ = mc.Fn.(*ssa.Function)
				}
			}
		}
	}
	if body == nil {
		c.Unresolved("R20.1", "goroutine closure in Subscribe not found")
		return
	}
	c.SawFunc(body)
	// channels: response channel = chan of *SubscriptionResponse; header channel = chan of *ExtendedHeader
	isRespChan := func(v ssa.Value) bool {
		t := v.Type()
		for i := 0; i < 2; i++ {
			if pt, ok := t.(*types.Pointer); ok {
				t = pt.Elem()
			}
		}
		ch, ok := t.Underlying().(*types.Chan)
		return ok && namedIs(ch.Elem(), pkgBlob, "SubscriptionResponse")
	}
	isHeaderChan := func(v ssa.Value) bool {
		ch, ok := v.Type().Underlying().(*types.Chan)
		return ok && namedIs(ch.Elem(), modPath+"/header", "ExtendedHeader")
	}
	var outer, sendSel *ssa.Select
	var sendBlocks = map[*ssa.BasicBlock]bool{}
	for _, b := range body.Blocks {
		for _, ins := range b.Instrs {
			sel, ok := ins.(*ssa.Select)
			if !ok {
				continue
			}
			for _, st := range sel.States {
				if st.Dir == types.RecvOnly && isHeaderChan(st.Chan) {
					outer = sel
				}
				if st.Dir == types.SendOnly && isRespChan(st.Chan) {
					sendSel = sel
					sendBlocks[b] = true
				}
			}
		}
		for _, ins := range b.Instrs {
			if sd, ok := ins.(*ssa.Send); ok && isRespChan(sd.Chan) {
				sendBlocks[b] = true
			}
		}
	}
	if outer == nil || len(sendBlocks) == 0 {
		c.Unresolved("R20.1", "outer select on the header channel / send on the response channel not found")
		return
	}
	// case-0 entry of the outer select: the branch `index == k` where k is the header case
	hdrCase := -1
	for i, st := range outer.States {
		if st.Dir == types.RecvOnly && isHeaderChan(st.Chan) {
			hdrCase = i
		}
	}
	var caseEntry *ssa.BasicBlock
	for _, b := range body.Blocks {
		ifi, ok := b.Instrs[len(b.Instrs)-1].(*ssa.If)
		if !ok {
			continue
		}
		bo, ok := ifi.Cond.(*ssa.BinOp)
		if !ok || bo.Op != token.EQL {
			continue
		}
		ex, ok := bo.X.(*ssa.Extract)
		k, ok2 := bo.Y.(*ssa.Const)
		if ok && ok2 && ex.Tuple == ssa.Value(outer) && ex.Index == 0 && k.Int64() == int64(hdrCase) {
			caseEntry = b.Succs[0]
		}
	}
	if caseEntry == nil {
		c.Unresolved("R20.1", "header case of the outer select not found")
		return
	}
	outerBlock := outer.Block()
	// (a) no header skipped
	res := gateWalkOpts(p, body, map[*ssa.BasicBlock]bool{outerBlock: true}, nil, caseEntry, sendBlocks)
	c.Ob("R20.1", "no header skipped", !res.Reached, p.Pos(outer.Pos()), "every path from receiving a header back to waiting for the next one passes a send on the response channel (all other paths end the goroutine)", res.Witness...)
	// (b) at most one send per iteration
	dup := false
	var wit []string
	for sb := range sendBlocks {
		r2 := gateWalkFrom(p, body, sb, sendBlocks, nil, map[*ssa.BasicBlock]bool{outerBlock: true})
		// gateWalkFrom removes sb itself from targets; a second, different send block would be reached
		if r2.Reached {
			dup, wit = true, r2.Witness
		}
		// the same send block again without passing the outer select
		r3 := gateWalkFrom(p, body, sb, map[*ssa.BasicBlock]bool{}, nil, map[*ssa.BasicBlock]bool{outerBlock: true})
		_ = r3
		for _, s := range sb.Succs {
			r4 := gateWalkOpts(p, body, map[*ssa.BasicBlock]bool{sb: true}, nil, s, map[*ssa.BasicBlock]bool{outerBlock: true})
			if r4.Reached {
				dup, wit = true, r4.Witness
			}
		}
	}
	c.Ob("R20.1", "at most one send per header", !dup, p.Pos(outer.Pos()), "after a send no further send is reachable before the next header is received", wit...)
	// response fields
	hdrVal := func(v ssa.Value) bool {
		ex, ok := v.(*ssa.Extract)
		return ok && ex.Tuple == ssa.Value(outer)
	}
	getAll := p.Func("blob", "Service", "getAll")
	if getAll == nil {
		c.Unresolved("R20.2", "blob.(*Service).getAll not found")
		return
	}
	// the retrieval runs under the SUBSCRIBER's context (so that cancelling the subscription ends an
	// in-flight retrieval), not under the service's
	for _, b := range body.Blocks {
		for _, ins := range b.Instrs {
			g, ok := ins.(*ssa.Call)
			if !ok || g.Call.StaticCallee() != getAll {
				continue
			}
			sl := backSlice(g.Call.Args[1], SliceOpt{ThroughFreeVars: true})
			fromSub := sl.Has(func(v ssa.Value) bool {
				pr, ok := v.(*ssa.Parameter)
				return ok && pr.Name() == "ctx" && pr.Parent() == rootFunc(body)
			})
			c.Ob("R20.5", "retrieval runs under the subscriber's context", fromSub && !sl.HasFieldNamed("Service", "ctx"), p.Pos(g.Pos()),
				"the context handed to getAll derives from Subscribe's ctx parameter and not from the service context")
		}
	}
	for _, b := range body.Blocks {
		for _, ins := range b.Instrs {
			st, ok := ins.(*ssa.Store)
			if !ok {
				continue
			}
			fa, ok := st.Addr.(*ssa.FieldAddr)
			if !ok || derefNamed(fa.X.Type()) == nil || derefNamed(fa.X.Type()).Obj().Name() != "SubscriptionResponse" {
				continue
			}
			sl := backSlice(st.Val, SliceOpt{CallArgs: true})
			switch fieldOf(fa).Name() {
			case "Height", "Header":
				arith := sl.Has(func(v ssa.Value) bool {
					bo, ok := v.(*ssa.BinOp)
					return ok && (bo.Op == token.ADD || bo.Op == token.SUB || bo.Op == token.MUL || bo.Op == token.QUO || bo.Op == token.REM)
				})
				c.Ob("R20.1", "response."+fieldOf(fa).Name(), sl.Has(hdrVal) && !arith, p.Pos(st.Pos()), "is the received header's own value (derived from the header of this iteration, with no arithmetic on the way)")
			case "Blobs":
				okB := sl.Has(func(v ssa.Value) bool {
					g, ok := v.(*ssa.Call)
					if !ok || g.Call.StaticCallee() != getAll {
						return false
					}
					return backSliceAll(g.Call.Args, SliceOpt{}).Has(hdrVal)
				})
				c.Ob("R20.1", "response.Blobs", okB, p.Pos(st.Pos()), "the blobs sent are the result of getAll for the header received in this iteration")
			}
		}
	}
	// R20.2
	getCut := callGates(func(g *ssa.Call, idx int) GateKind {
		if g.Call.StaticCallee() == getAll {
			return GateErr
		}
		return NotGate
	})
	res = gateWalkOpts(p, body, sendBlocks, getCut, caseEntry, nil)
	c.Ob("R20.2", "send only after successful retrieval", !res.Reached, p.Pos(outer.Pos()), "from the header receipt the send is reachable only across getAll's err == nil edge (failing retrievals are retried, not skipped)", res.Witness...)
	// R20.4
	getBlocks := blocksWhere(body, func(ins ssa.Instruction) bool {
		g, ok := ins.(*ssa.Call)
		return ok && g.Call.StaticCallee() == getAll
	})
	c.Floor("R20.4", "getAll calls in the subscription goroutine", len(getBlocks), 1)
	ovCut := func(b *ssa.BasicBlock, ifi *ssa.If) (bool, bool) {
		a := stripNot(ifi.Cond)
		bo, ok := a.Base.(*ssa.BinOp)
		if !ok || (bo.Op != token.EQL && bo.Op != token.GEQ && bo.Op != token.NEQ && bo.Op != token.LSS) {
			return false, false
		}
		isLC := func(v ssa.Value, name string) bool {
			g, ok := v.(*ssa.Call)
			if !ok {
				return false
			}
			bi, ok := g.Call.Value.(*ssa.Builtin)
			return ok && bi.Name() == name && isRespChan(g.Call.Args[0])
		}
		if !(isLC(bo.X, "len") && isLC(bo.Y, "cap")) {
			return false, false
		}
		fullWhenTrue := (bo.Op == token.EQL || bo.Op == token.GEQ) != a.Neg
		// cut the "not full" edge: we want getAll unreachable without crossing it
		return !fullWhenTrue, fullWhenTrue
	}
	res = gateWalkOpts(p, body, getBlocks, ovCut, caseEntry, nil)
	c.Ob("R20.4", "overflow test before retrieval", !res.Reached, p.Pos(outer.Pos()), "retrieval starts only across the 'buffer not full' side of len(ch)==cap(ch)", res.Witness...)
	// and the full side ends the goroutine
	// R20.3
	closes, sends := 0, 0
	for _, f := range append([]*ssa.Function{sub}, Closures(sub)...) {
		for _, b := range f.Blocks {
			for _, ins := range b.Instrs {
				switch x := ins.(type) {
				case ssa.CallInstruction:
					if bi, ok := x.Common().Value.(*ssa.Builtin); ok && bi.Name() == "close" && isRespChan(x.Common().Args[0]) {
						_, isDefer := x.(*ssa.Defer)
						closes++
						c.Ob("R20.3", "close@"+fnName(f), isDefer && f == body, p.Pos(x.Pos()), "the response channel is closed by a defer in the sending goroutine")
					}
				case *ssa.Send:
					if isRespChan(x.Chan) {
						sends++
						c.Ob("R20.3", "send@"+fnName(f), f == body, p.Pos(x.Pos()), "only the subscription goroutine sends")
					}
				case *ssa.Select:
					for _, st := range x.States {
						if st.Dir == types.SendOnly && isRespChan(st.Chan) {
							sends++
							c.Ob("R20.3", "send@"+fnName(f), f == body, p.Pos(x.Pos()), "only the subscription goroutine sends")
						}
					}
				}
			}
		}
	}
	c.Ob("R20.3", "closed exactly once", closes == 1 && sends >= 1, p.Pos(sub.Pos()), fmt.Sprintf("%d close site(s), %d send site(s)", closes, sends))
	_ = sendSel
	// R20.5
	c20Loops(c, body)
	// "send only after successful retrieval" rests on getBlobs not turning a failure into an empty success (C11 R11.4)
	importRules(c, "R20.2", "getBlobs error mapping (C11 R11.4)", runC11, func(f Finding) bool { return f.Rule == "R11.4" && strings.Contains(f.Construct, "getBlobs") }, func(s *Check) int { return s.evals })
}

// ctxSource names the context a Done()/Err() call consults.
func ctxSource(v ssa.Value) string {
	switch x := v.(type) {
	case *ssa.FreeVar:
		return x.Name()
	case *ssa.Parameter:
		return x.Name()
	case *ssa.UnOp:
		if x.Op == token.MUL {
			if fa, ok := x.X.(*ssa.FieldAddr); ok && fieldOf(fa) != nil {
				return "field:" + fieldOf(fa).Name()
			}
			return ctxSource(x.X)
		}
	case *ssa.Phi:
		if len(x.Edges) > 0 {
			return ctxSource(x.Edges[0])
		}
	}
	return ""
}

func c20Loops(c *Check, body *ssa.Function) {
	p := c.P
	srcAt := map[*ssa.BasicBlock]map[string]bool{}
	all := map[string]bool{}
	for _, b := range body.Blocks {
		for _, ins := range b.Instrs {
			g, ok := ins.(*ssa.Call)
			if !ok || !g.Call.IsInvoke() || (g.Call.Method.Name() != "Done" && g.Call.Method.Name() != "Err") {
				continue
			}
			if g.Call.Value.Type().String() != "context.Context" {
				continue
			}
			s := ctxSource(g.Call.Value)
			if s == "" {
				continue
			}
			if srcAt[b] == nil {
				srcAt[b] = map[string]bool{}
			}
			srcAt[b][s] = true
			all[s] = true
		}
	}
	var alls []string
	for s := range all {
		alls = append(alls, s)
	}
	sort.Strings(alls)
	c.Floor("R20.5", "cancellation sources observed by the goroutine", len(all), 2)
	// natural loops by back edges
	type loop struct {
		head *ssa.BasicBlock
		body map[*ssa.BasicBlock]bool
	}
	var loops []loop
	for _, b := range body.Blocks {
		for _, s := range b.Succs {
			if s.Dominates(b) {
				lb := map[*ssa.BasicBlock]bool{s: true}
				stack := []*ssa.BasicBlock{b}
				for len(stack) > 0 {
					x := stack[len(stack)-1]
					stack = stack[:len(stack)-1]
					if lb[x] {
						continue
					}
					lb[x] = true
					stack = append(stack, x.Preds...)
				}
				// merge loops with the same head
				merged := false
				for i := range loops {
					if loops[i].head == s {
						for k := range lb {
							loops[i].body[k] = true
						}
						merged = true
					}
				}
				if !merged {
					loops = append(loops, loop{s, lb})
				}
			}
		}
	}
	sort.Slice(loops, func(i, j int) bool { return len(loops[i].body) > len(loops[j].body) })
	c.Floor("R20.5", "loops in the subscription goroutine", len(loops), 1)
	for i, l := range loops {
		if i == 0 {
			continue // the outermost loop is the reference
		}
		// only loops that can iterate without returning to the outer select, i.e. nested ones
		have := map[string]bool{}
		for b := range l.body {
			for s := range srcAt[b] {
				have[s] = true
			}
		}
		var missing []string
		for _, s := range alls {
			if !have[s] {
				missing = append(missing, s)
			}
		}
		// a loop without any blocking or failing operation (pure data loop) is exempt: it must contain a call
		hasCall := false
		for b := range l.body {
			for _, ins := range b.Instrs {
				if g, ok := ins.(*ssa.Call); ok {
					if _, isBuiltin := g.Call.Value.(*ssa.Builtin); !isBuiltin {
						hasCall = true
					}
				}
			}
		}
		if !hasCall {
			continue
		}
		c.Ob("R20.5", fmt.Sprintf("nested loop@block%d", l.head.Index), len(missing) == 0, p.Pos(blockPos(l.head)),
			fmt.Sprintf("the loop consults %v of the goroutine's cancellation sources %v; missing %v (the loop keeps spinning after that source is cancelled)", keysOf(have), alls, missing))
	}
}

func keysOf(m map[string]bool) []string {
	var o []string
	for k := range m {
		o = append(o, k)
	}
	sort.Strings(o)
	return o
}

var _ = strings.Contains
