package main

import (
	"fmt"

	"golang.org/x/tools/go/ssa"
)

// Exploration-only pseudo properties (not in MANIFEST.json): list instances of the
// generic rules over more packages, to confirm candidates by reading before a rule
// is armed for a property.
func init() {
	register("XERR", func(c *Check) {
		c.Rule("X1", "dropped errors")
		checkNoDroppedErrors(c, "X1", nil, "das", "pruner", "core", "blob", "header", "share/availability/light", "share/availability/full", "share/shwap/p2p/shrex", "share/shwap/p2p/shrex/peers", "share/shwap/p2p/bitswap", "share/shwap/p2p/shrex/shrex_getter", "share/shwap", "share/eds", "store/cache", "share/shwap/getters", "libs/authtoken", "api/rpc", "nodebuilder/node", "share", "store", "store/file")
	}, "exploration", "")
	register("XGUARD", func(c *Check) {
		c.Rule("X2", "results only on success")
		checkResultsOnlyOnSuccess(c, "X2", "das", "pruner", "core", "blob", "header", "share/availability/light", "share/availability/full", "share/shwap/p2p/shrex", "share/shwap/p2p/shrex/peers", "share/shwap/p2p/bitswap", "share/shwap/p2p/shrex/shrex_getter", "share/shwap", "share/eds", "store", "store/file", "store/cache", "share", "api/rpc", "nodebuilder/pruner", "share/shwap/getters", "libs/authtoken", "nodebuilder/node")
	}, "exploration", "")
}


// XLOCK: Engler-style inference of guarded-by candidates. For every first-party struct
// that has a mutex field, count for each other field the accesses made with some lock
// of that struct held (intraprocedural may-held) and without. Output is a ranked list
// to be read by a human; nothing is armed from it automatically.
func init() {
	register("XLOCK", func(c *Check) {
		p := c.P
		c.Rule("X4", "guarded-by candidates")
		pkgs := []string{"das", "pruner", "core", "blob", "header", "share/availability/light", "share/availability/full", "share/shwap/p2p/shrex", "share/shwap/p2p/shrex/peers",
			"share/shwap/p2p/bitswap", "share/shwap/p2p/shrex/shrex_getter", "share/shwap/p2p/shrex/shrexsub", "share/shwap/p2p/discovery", "share/eds", "store", "store/cache", "store/file", "libs/utils", "api/rpc", "share/shwap/getters", "nodebuilder/p2p", "state"}
		la := newLockAnalysis(p, pkgs...)
		type key struct{ owner, field string }
		locked := map[key]int{}
		total := map[key]int{}
		sites := map[key][]string{}
		hasMutex := map[string]bool{}
		for l := range la.locks {
			// "pkg.Type.field"
			if i := lastDot(l); i > 0 {
				hasMutex[l[:i]] = true
			}
		}
		for _, f := range la.funcs {
			root := rootFunc(f)
			if len(root.Name()) >= 3 && (root.Name()[:3] == "New" || root.Name()[:3] == "new") {
				continue
			}
			for _, b := range f.Blocks {
				for _, ins := range b.Instrs {
					fa, ok := ins.(*ssa.FieldAddr)
					if !ok {
						continue
					}
					fv := fieldOf(fa)
					owner := derefNamed(fa.X.Type())
					if fv == nil || owner == nil || owner.Obj().Pkg() == nil {
						continue
					}
					on := owner.Obj().Pkg().Name() + "." + owner.Obj().Name()
					if !hasMutex[on] {
						continue
					}
					if n := derefNamed(fv.Type()); n != nil && (n.Obj().Name() == "Mutex" || n.Obj().Name() == "RWMutex") {
						continue
					}
					k := key{on, fv.Name()}
					total[k]++
					held := false
					for l := range la.mayBefore[ins] {
						if len(l) > len(on) && l[:len(on)] == on {
							held = true
						}
					}
					if held {
						locked[k]++
					} else {
						sites[k] = append(sites[k], fnName(f)+" "+p.Pos(fa.Pos()))
					}
				}
			}
		}
		for k, t := range total {
			if locked[k] >= 2 && locked[k] < t && locked[k]*2 >= t {
				c.Ob("X4", fmt.Sprintf("%s.%s locked %d/%d", k.owner, k.field, locked[k], t), false, "-", fmt.Sprintf("unlocked: %v", sites[k]))
			}
		}
	}, "exploration", "")
}

func lastDot(s string) int {
	for i := len(s) - 1; i >= 0; i-- {
		if s[i] == '.' {
			return i
		}
	}
	return -1
}
