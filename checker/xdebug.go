package main

// Exploration-only pseudo properties (not in MANIFEST.json): list instances of the
// generic rules over more packages, to confirm candidates by reading before a rule
// is armed for a property.
func init() {
	register("XERR", func(c *Check) {
		c.Rule("X1", "dropped errors")
		checkNoDroppedErrors(c, "X1", nil, "das", "pruner", "core", "blob", "header", "share/availability/light", "share/availability/full", "share/shwap/p2p/shrex", "share/shwap/p2p/shrex/peers", "share/shwap/p2p/bitswap", "share/shwap/p2p/shrex/shrex_getter", "share/shwap", "share/eds", "store/cache", "share/shwap/getters", "libs/authtoken", "api/rpc", "nodebuilder/node", "share", "store", "store/file")
	}, "exploration", "")
	register("XGUARD", func(c *Check) {
		c.Rule("X2", "results only on success")
		checkResultsOnlyOnSuccess(c, "X2", "das", "pruner", "core", "blob", "header", "share/availability/light", "share/availability/full", "share/shwap/p2p/shrex", "share/shwap/p2p/shrex/peers", "share/shwap/p2p/bitswap", "share/shwap/p2p/shrex/shrex_getter", "share/shwap", "share/eds", "store", "store/file", "store/cache", "share", "api/rpc", "nodebuilder/pruner", "share/shwap/getters", "libs/authtoken", "nodebuilder/node")
	}, "exploration", "")
}

