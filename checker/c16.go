package main

import (
	"fmt"
	"go/token"
	"go/types"
	"strings"

	"golang.org/x/tools/go/ssa"
)

func init() {
	register("C16", runC16,
		"Structural necessary conditions of 'only internally consistent, properly signed headers are accepted'. R16.1 binding comparisons gate acceptance: in ExtendedHeader.Validate every success return is reachable only across rejecting comparisons whose two sides derive from the field pairs the property names - {ValidatorSet.Hash(), ValidatorsHash}, {DAH.Hash(), DataHash}, {Commit.Height, header Height}, {the recomputed header hash (cometbft Header.Hash()), Commit.BlockID.Hash} - across the success edge of ValidatorSet.VerifyCommitLight(chain id, Commit.BlockID, height, Commit) on the header's own validator set, and across the four ValidateBasic calls and the app-version bound; in Verify, the adjacent side is gated by {untrusted.ValidatorsHash, trusted.NextValidatorsHash} and {untrusted.LastHeader(), trusted.Hash()} and the non-adjacent side by the success edge of VerifyCommitLightTrusting invoked on the TRUSTED header's validator set with the UNTRUSTED header's commit. Sides are matched on value sources (field of which struct, reached from which parameter, through which dependency call), not on text. R16.2: Hash() returns Commit.BlockID.Hash; the gossip message id's non-fallback value derives only from the decoded commit's BlockID. R16.3: first-party call sites that accept headers from outside are enumerated in the evidence. Not decided: that every header field participates in cometbft's Header.Hash, encode/decode stability, signature arithmetic.",
		"cometbft's Header.Hash, ValidatorSet.Hash, VerifyCommitLight(Trusting) are sound (dependency)")
}

const pkgHeader = modPath + "/header"

type sidePred func(sl *Slice, base ssa.Value) bool

func hasFieldOn(owner, field string) sidePred {
	return func(sl *Slice, _ ssa.Value) bool { return sl.HasFieldNamed(owner, field) }
}

func hasCallOn(recvType, method string) sidePred {
	return func(sl *Slice, _ ssa.Value) bool {
		return sl.Has(func(v ssa.Value) bool {
			g, ok := v.(*ssa.Call)
			if !ok {
				return false
			}
			o := calleeObj(&g.Call)
			if o == nil || o.Name() != method {
				return false
			}
			rn := recvNamed(o)
			return rn != nil && rn.Obj().Name() == recvType
		})
	}
}

func both(a, b sidePred) sidePred {
	return func(sl *Slice, base ssa.Value) bool { return a(sl, base) && b(sl, base) }
}

func fromParam(fn *ssa.Function, idx int) sidePred {
	return func(sl *Slice, _ ssa.Value) bool { return sl.Vals[fn.Params[idx]] }
}

func notFromParam(fn *ssa.Function, idx int) sidePred {
	return func(sl *Slice, _ ssa.Value) bool { return !sl.Vals[fn.Params[idx]] }
}

// comparisonOperands decodes a branch condition that compares two values:
// bytes.Equal(x, y) (possibly negated) or x ==/!= y.
func comparisonOperands(cond ssa.Value) (x, y ssa.Value, ok bool) {
	a := stripNot(cond)
	switch v := a.Base.(type) {
	case *ssa.Call:
		if f := v.Call.StaticCallee(); f != nil && f.String() == "bytes.Equal" && len(v.Call.Args) == 2 {
			return v.Call.Args[0], v.Call.Args[1], true
		}
	case *ssa.BinOp:
		if v.Op == token.EQL || v.Op == token.NEQ {
			// comparing lengths is not comparing the values
			if isLenCall(v.X) || isLenCall(v.Y) {
				return nil, nil, false
			}
			return v.X, v.Y, true
		}
	}
	return nil, nil, false
}

// pairGate: failure gates comparing a value matching sideA with one matching sideB.
func pairGate(fn *ssa.Function, sideA, sideB sidePred) (EdgeCut, int) {
	n := 0
	cut, _ := failGates(fn, func(cond ssa.Value, _ *Slice) bool {
		x, y, ok := comparisonOperands(cond)
		if !ok {
			return false
		}
		sx := backSlice(x, SliceOpt{CallArgs: true})
		sy := backSlice(y, SliceOpt{CallArgs: true})
		if (sideA(sx, x) && sideB(sy, y) && !sideB(sx, x)) || (sideA(sy, y) && sideB(sx, x) && !sideB(sy, y)) {
			n++
			return true
		}
		return false
	})
	return cut, n
}

func runC16(c *Check) {
	p := c.P
	c.Rule("R16.1", "acceptance is gated by the binding comparisons between the named field pairs and by the signature checks on the right validator set")
	c.Rule("R16.2", "hash and gossip id depend only on the committed block id")
	c.Rule("R16.3", "first-party acceptance sites enumerated")
	defer c16PureDecode(c)
	val := p.Func("header", "ExtendedHeader", "Validate")
	ver := p.Func("header", "ExtendedHeader", "Verify")
	if val == nil || ver == nil {
		c.Unresolved("R16.1", "ExtendedHeader.Validate/Verify not found")
		return
	}
	c.SawFunc(val)
	c.SawFunc(ver)
	succ := blocksOfReturns(successReturns(val))
	c.Floor("R16.1", "success returns of Validate", len(succ), 1)
	pairs := []struct {
		name string
		a, b sidePred
	}{
		{"validator set hash vs ValidatorsHash", hasCallOn("ValidatorSet", "Hash"), both(hasFieldOn("Header", "ValidatorsHash"), func(sl *Slice, _ ssa.Value) bool { return !hasCallOn("ValidatorSet", "Hash")(sl, nil) })},
		{"DAH hash vs DataHash", hasCallOn("DataAvailabilityHeader", "Hash"), both(hasFieldOn("Header", "DataHash"), func(sl *Slice, _ ssa.Value) bool { return !hasCallOn("DataAvailabilityHeader", "Hash")(sl, nil) })},
		{"commit height vs header height", hasFieldOn("Commit", "Height"), both(hasFieldOn("Header", "Height"), func(sl *Slice, _ ssa.Value) bool { return !sl.HasFieldNamed("Commit", "Height") })},
		{"recomputed header hash vs commit block id", hasCallOn("Header", "Hash"), both(hasFieldOn("BlockID", "Hash"), func(sl *Slice, _ ssa.Value) bool { return !hasCallOn("Header", "Hash")(sl, nil) })},
	}
	for _, pr := range pairs {
		cut, n := pairGate(val, pr.a, pr.b)
		res := gateWalk(p, val, succ, cut, nil)
		c.Ob("R16.1", "Validate: "+pr.name, n > 0 && !res.Reached, p.Pos(val.Pos()),
			fmt.Sprintf("success only across a rejecting comparison of the two sides (%d such comparisons)", n), res.Witness...)
	}
	// signature check on the header's own validator set with its own commit and block id
	nSig := 0
	sigCut := callGates(func(g *ssa.Call, _ int) GateKind {
		o := calleeObj(&g.Call)
		if o == nil || o.Name() != "VerifyCommitLight" || len(g.Call.Args) != 5 {
			return NotGate
		}
		recv := backSlice(g.Call.Args[0], SliceOpt{})
		blockID := backSlice(g.Call.Args[2], SliceOpt{})
		commit := backSlice(g.Call.Args[4], SliceOpt{})
		height := backSlice(g.Call.Args[3], SliceOpt{CallArgs: true})
		if recv.HasFieldNamed("ExtendedHeader", "ValidatorSet") && recv.Vals[val.Params[0]] &&
			blockID.HasFieldNamed("Commit", "BlockID") && commit.HasFieldNamed("ExtendedHeader", "Commit") && height.Vals[val.Params[0]] {
			nSig++
			return GateErr
		}
		return NotGate
	})
	res := gateWalk(p, val, succ, sigCut, nil)
	c.Ob("R16.1", "Validate: commit signed by the header's validator set", !res.Reached && nSig > 0, p.Pos(val.Pos()),
		"success only across ValidatorSet.VerifyCommitLight(chainID, Commit.BlockID, height, Commit) == nil on eh's own validator set", res.Witness...)
	// ValidateBasic calls and app version
	for _, who := range []string{"ExtendedHeader", "Commit", "ValidatorSet", "DataAvailabilityHeader"} {
		cut := callGates(func(g *ssa.Call, _ int) GateKind {
			o := calleeObj(&g.Call)
			if o == nil || o.Name() != "ValidateBasic" {
				return NotGate
			}
			rn := recvNamed(o)
			name := ""
			if rn != nil {
				name = rn.Obj().Name()
			}
			if name == who || (who == "ExtendedHeader" && name == "Header") {
				return GateErr
			}
			return NotGate
		})
		res := gateWalk(p, val, succ, cut, nil)
		c.Ob("R16.1", "Validate: ValidateBasic of "+who, !res.Reached, p.Pos(val.Pos()), "success only across ValidateBasic() == nil", res.Witness...)
	}
	verCut, nv := failGates(val, func(cond ssa.Value, sl *Slice) bool {
		return sl.HasFieldNamed("Consensus", "App") && sl.Has(func(v ssa.Value) bool {
			k, ok := v.(*ssa.Const)
			return ok && k.Value != nil && k.Value.ExactString() != "0"
		})
	})
	res = gateWalk(p, val, succ, verCut, nil)
	c.Ob("R16.1", "Validate: app version bound", len(nv) > 0 && !res.Reached, p.Pos(val.Pos()), "success only across the supported app-version bound", res.Witness...)

	// Verify
	// Verify may hand a branch over to a helper method with the same (trusted, untrusted) pair
	// (`return eh.verifyAdjacent(untrst)`): the rules are evaluated on Verify and on every such
	// helper, each with its own success returns; a delegating return is discharged by its helper.
	verFns := []*ssa.Function{ver}
	delegated := map[*ssa.BasicBlock]bool{}
	for _, r := range returnsOf(ver) {
		g, _ := resolveCallThroughLocals(r.Results[len(r.Results)-1])
		if g == nil || g.Call.StaticCallee() == nil || !p.FirstParty(g.Call.StaticCallee()) || g.Call.StaticCallee().Blocks == nil {
			continue
		}
		h := g.Call.StaticCallee()
		if len(g.Call.Args) == 2 && len(h.Params) == 2 && g.Call.Args[0] == ssa.Value(ver.Params[0]) && g.Call.Args[1] == ssa.Value(ver.Params[1]) {
			verFns = append(verFns, h)
			delegated[r.Block()] = true
			c.SawFunc(h)
		}
	}
	n1, n2, nT := 0, 0, 0
	var res1, res2 GateResult
	for _, vf := range verFns {
		vf := vf
		vsucc := blocksOfReturns(successReturns(vf))
		if vf == ver {
			vsucc = minusBlocks(vsucc, delegated)
		}
		adj1, k1 := pairGate(vf, both(hasFieldOn("Header", "ValidatorsHash"), fromParam(vf, 1)), both(hasFieldOn("Header", "NextValidatorsHash"), both(fromParam(vf, 0), notFromParam(vf, 1))))
		adj2, k2 := pairGate(vf, both(hasCallOn("ExtendedHeader", "LastHeader"), fromParam(vf, 1)), both(hasCallOn("ExtendedHeader", "Hash"), both(fromParam(vf, 0), notFromParam(vf, 1))))
		n1 += k1
		n2 += k2
		trust := callGates(func(g *ssa.Call, _ int) GateKind {
			o := calleeObj(&g.Call)
			if o == nil || o.Name() != "VerifyCommitLightTrusting" || len(g.Call.Args) < 3 {
				return NotGate
			}
			recv := backSlice(g.Call.Args[0], SliceOpt{})
			commit := backSlice(g.Call.Args[2], SliceOpt{})
			if recv.Vals[vf.Params[0]] && !recv.Vals[vf.Params[1]] && recv.HasFieldNamed("ExtendedHeader", "ValidatorSet") &&
				commit.Vals[vf.Params[1]] && commit.HasFieldNamed("ExtendedHeader", "Commit") {
				nT++
				return GateErr
			}
			return NotGate
		})
		if r := gateWalk(p, vf, vsucc, orCuts(adj1, trust), nil); r.Reached && !res1.Reached {
			res1 = r
		}
		if r := gateWalk(p, vf, vsucc, orCuts(adj2, trust), nil); r.Reached && !res2.Reached {
			res2 = r
		}
		// evaluate trust gate once so that nT is counted even if the adjacent cuts discharge everything
		_ = gateWalk(p, vf, vsucc, trust, nil)
	}
	c.Ob("R16.1", "Verify: adjacent validators hash link or trusted signatures", n1 > 0 && !res1.Reached, p.Pos(ver.Pos()),
		"success only across {untrusted.ValidatorsHash == trusted.NextValidatorsHash} or VerifyCommitLightTrusting on the trusted validator set", res1.Witness...)
	c.Ob("R16.1", "Verify: adjacent last-header link or trusted signatures", n2 > 0 && !res2.Reached, p.Pos(ver.Pos()),
		"success only across {untrusted.LastHeader() == trusted.Hash()} or VerifyCommitLightTrusting on the trusted validator set", res2.Witness...)
	c.Ob("R16.1", "Verify: trusting check uses the trusted validator set and the untrusted commit", nT > 0, p.Pos(ver.Pos()),
		"VerifyCommitLightTrusting is invoked on the receiver's (trusted) ValidatorSet with the untrusted header's Commit")
	// the adjacency test itself compares the two heights
	adjCond := 0
	for _, b := range ver.Blocks {
		if ifi, ok := b.Instrs[len(b.Instrs)-1].(*ssa.If); ok {
			x, y, ok := comparisonOperands(ifi.Cond)
			if !ok {
				continue
			}
			sx, sy := backSlice(x, SliceOpt{CallArgs: true}), backSlice(y, SliceOpt{CallArgs: true})
			isH := func(s *Slice) bool { return hasCallOn("ExtendedHeader", "Height")(s, nil) }
			if isH(sx) && isH(sy) && (sx.Vals[ver.Params[0]] != sy.Vals[ver.Params[0]] || sx.Vals[ver.Params[1]] != sy.Vals[ver.Params[1]]) {
				adjCond++
			}
		}
	}
	c.Ob("R16.1", "Verify: adjacency decided by the two heights", adjCond >= 1, p.Pos(ver.Pos()), "the adjacent/non-adjacent split compares the trusted and untrusted heights")

	// R16.2
	if h := p.Func("header", "ExtendedHeader", "Hash"); h != nil {
		c.SawFunc(h)
		ok := true
		for _, r := range returnsOf(h) {
			sl := backSlice(r.Results[0], SliceOpt{CallArgs: true})
			if !sl.HasFieldNamed("BlockID", "Hash") || !sl.HasFieldNamed("ExtendedHeader", "Commit") {
				ok = false
			}
		}
		c.Ob("R16.2", "Hash() is the committed block hash", ok, p.Pos(h.Pos()), "Hash returns Commit.BlockID.Hash")
	} else {
		c.Unresolved("R16.2", "ExtendedHeader.Hash not found")
	}
	if m := p.Func("header", "", "MsgID"); m != nil {
		c.SawFunc(m)
		nMain := 0
		for _, r := range returnsOf(m) {
			sl := backSlice(r.Results[0], SliceOpt{CallArgs: true})
			if sl.Has(func(v ssa.Value) bool {
				g, ok := v.(*ssa.Call)
				return ok && g.Call.StaticCallee() != nil && strings.HasSuffix(g.Call.StaticCallee().Name(), "MsgID$1")
			}) {
				continue // the fallback id of an undecodable message
			}
			nMain++
			onlyBlockID := sl.HasFieldNamed("Commit", "BlockID") && !sl.HasFieldNamed("Commit", "Signatures") && !sl.HasFieldNamed("Commit", "Round")
			c.Ob("R16.2", "MsgID derives from the block id", onlyBlockID, p.Pos(r.Pos()), "the gossip id of a decodable message is commit.BlockID only (not signatures, which differ per validator view)")
		}
		c.Ob("R16.2", "MsgID has a block-id return", nMain > 0, p.Pos(m.Pos()), "besides the fallback for undecodable messages (hash of the bytes) there is a return that derives from the decoded commit")
	} else {
		c.Unresolved("R16.2", "header.MsgID not found")
	}
	// R16.3
	n := 0
	for _, s := range p.allCallSites(func(o *types.Func) bool {
		return o.Name() == "Validate" && recvNamed(o) != nil && recvNamed(o).Obj().Name() == "ExtendedHeader"
	}) {
		n++
		c.Note("Validate called at %s in %s", p.Pos(s.Pos()), fnName(s.Parent()))
	}
	c.Ob("R16.3", "acceptance sites", true, "-", fmt.Sprintf("%d first-party call sites of ExtendedHeader.Validate listed in notes (go-header's sync pipeline calls it through the Header interface)", n))
}
