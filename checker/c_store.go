package main

import (
	"fmt"
	"go/ast"
	"go/constant"
	"go/token"
	"go/types"
	"sort"
	"strings"

	"golang.org/x/tools/go/ssa"
)

func init() {
	register("C05", runC05,
		"Three structural necessary conditions of 'every way of reading a stored block returns the stored block' (byte equality across representations is a value property and is not decided). R5.1 wrapper forwarding: for every first-party type implementing eds.Accessor, each method whose results are returned unchanged from a single call on a wrapped accessor (a pure forwarder, possibly behind guards) calls the same-named method with its own parameters in the same order. R5.2 the store hands out only wrapped accessors: every accessor returned by an exported method of store.Store/CachedStore, or produced by a cache loader built in package store, derives from wrapAccessor (proofs cache + close-once + validation), from a cache lookup, or is the documented eds.EmptyAccessor. R5.3 file layout agreement: headerV0.WriteTo and ReadFrom use the same byte range per field; the ODS writer's 'stop writing' predicate is exactly 'namespace equals the tail-padding namespace' and every reader that tolerates a short file substitutes libshare.TailPaddingShare (writer and readers agree on what is omitted).",
		"rsmt2d/NMT recomputation and the proofs-cache contents are value-level and outside these rules")
	register("C07", runC07,
		"Ordering and pairing conditions of crash-safe store writes (enumerating crash points is dynamic and not done). R7.1 link-after-complete: the height link is created only across {file creation succeeded} or {file exists and size validation/recovery succeeded}; the walk carries predicate facts so that the twice-evaluated errors.Is(err, os.ErrExist) does not yield an infeasible path. R7.2 exclusive create: every os.OpenFile under store/ that can write uses O_CREATE|O_EXCL. R7.3 rollback: every error return after a create/link attempt passes removeODS*/validateAndRecover*. R7.4 descriptors: os.Open/OpenFile and OpenODS results are closed on every failure path of the function that opened them (or handed to the caller). R7.5 the empty block is only linked, never written.",
		"file-system operations are atomic individually; durability (fsync) is outside 'the process dies'")
	register("C08", runC08,
		"Lock and resource conditions of concurrent store use (torn reads, termination, linearizability are schedule-dependent and not decided). R8.1 lock order over store, store/cache, store/file and share/eds: abstract locks (the store's hash/height stripes are one class), order edges through calls, interface calls and loader function values; no cycle; nested acquisition of one class only in the ordered multi-lock helper. R8.2 guarded-by: ODS.ods under ODS.lock, accessor.{isClosed,done} under accessor.lock, proofsCache.axisCache under axisCacheLock (reasoned exceptions listed). R8.3 check-then-add: in the accessor cache the LRU lookup and the Add of a freshly loaded accessor happen in one critical section of the height stripe (no release in between), otherwise two concurrent misses both load and one accessor is orphaned. R8.4 pairing: every function that locks releases on all paths (only the multi-lock helpers return holding/releasing). R8.5 close-once: every method of closeOnce other than Close tests `closed` before touching the wrapped accessor.",
		"could not be shown at run time and therefore listed as exceptions, not findings: ODS.readAxisHalf re-reads o.ods after RUnlock; CachedStore's loader opens the file under the cache stripe only")
}

const (
	pkgEds   = modPath + "/share/eds"
	pkgFile  = modPath + "/store/file"
	pkgCache = modPath + "/store/cache"
)

// ---------------- C05 ----------------

func runC05(c *Check) {
	c.Rule("R5.1", "pure forwarders call the same-named method with parameters in order")
	c.Rule("R5.2", "the store returns only wrapped (validated, close-once, proofs-cached) or cached accessors")
	c.Rule("R5.3", "file header layout and padding convention agree between writer and readers")
	c05Forwarders(c)
	c05Wrapped(c)
	c05Layout(c)
	c05ProofsCache(c, "R5.4")
	// a truncated file that is accepted reads back as tail padding: shared with C07
	c07ErrorsAndSizes(c, "R5.5", "R5.6")
	// the cached read path returns the stored block only if the cache neither loses nor orphans accessors (C08 R8.3, R8.7-R8.9)
	c.Rule("R5.8", "contracts the cached read path rests on: accessor cache atomicity and eviction rules of C08")
	importRules(c, "R5.8", "C08 R8.3/R8.7/R8.8/R8.9", runC08, pickRule("R8.3", "R8.7", "R8.8", "R8.9"), func(s *Check) int { return s.evals })
}

func c05Forwarders(c *Check) {
	p := c.P
	acc := p.Named("share/eds", "AccessorStreamer")
	if acc == nil {
		c.Unresolved("R5.1", "eds.AccessorStreamer not found")
		return
	}
	it := acc.Underlying().(*types.Interface)
	accI := p.Named("share/eds", "Accessor").Underlying().(*types.Interface)
	n, nTypes := 0, 0
	seenT := map[*types.Named]bool{}
	var impls []*types.Named
	impls = append(impls, p.Implementers(it)...)
	impls = append(impls, p.Implementers(accI)...)
	for _, t := range impls {
		if seenT[t] {
			continue
		}
		seenT[t] = true
		nTypes++
		for i := 0; i < t.NumMethods(); i++ {
			m := t.Method(i)
			fn := p.SSA.FuncValue(m)
			if fn == nil || fn.Blocks == nil || p.IsTestPos(m.Pos()) {
				continue
			}
			// is m an interface method?
			isIface := false
			for j := 0; j < it.NumMethods(); j++ {
				if it.Method(j).Name() == m.Name() {
					isIface = true
				}
			}
			if !isIface {
				continue
			}
			// delegating returns: all results come from one call on a value loaded from a receiver field
			var call *ssa.Call
			pure := true
			nret := 0
			for _, r := range returnsOf(fn) {
				if len(r.Results) == 0 {
					continue
				}
				var rc *ssa.Call
				okRet := true
				for k, rv := range r.Results {
					switch x := rv.(type) {
					case *ssa.Call:
						if len(r.Results) != 1 {
							okRet = false
						}
						rc = x
					case *ssa.Extract:
						cc, ok := x.Tuple.(*ssa.Call)
						if !ok || x.Index != k || (rc != nil && rc != cc) {
							okRet = false
						}
						rc = cc
					default:
						okRet = false
					}
				}
				if !okRet || rc == nil {
					// error-path returns with constants are fine; anything else makes it a non-forwarder
					allConst := true
					for _, rv := range r.Results {
						switch y := rv.(type) {
						case *ssa.Const:
						case *ssa.UnOp:
							if _, isG := y.X.(*ssa.Global); !isG {
								allConst = false
							}
						case *ssa.MakeInterface, *ssa.Call:
							// errors.New / fmt.Errorf
						default:
							if _, isAlloc := rv.(*ssa.Alloc); !isAlloc {
								allConst = false
							}
						}
					}
					if !allConst {
						pure = false
					}
					continue
				}
				nret++
				if call != nil && call != rc {
					pure = false
				}
				call = rc
			}
			if !pure || call == nil || nret == 0 {
				continue
			}
			// the call must be on a value held in a receiver field (a wrapped accessor)
			var recvVal ssa.Value
			var args []ssa.Value
			name := ""
			if call.Call.IsInvoke() {
				recvVal, args, name = call.Call.Value, call.Call.Args, call.Call.Method.Name()
			} else if sc := call.Call.StaticCallee(); sc != nil && sc.Signature.Recv() != nil && len(call.Call.Args) > 0 {
				recvVal, args, name = call.Call.Args[0], call.Call.Args[1:], sc.Name()
			} else {
				continue
			}
			if recvVal == ssa.Value(fn.Params[0]) {
				continue // a helper of the same object, not a wrapped accessor
			}
			if fieldOfAddr(recvVal) == nil && !isFieldOfRecv(recvVal, fn) {
				continue
			}
			// the wrapped value must itself be an accessor (not an internal helper type such as the in-memory square)
			if rt := recvVal.Type(); !types.Implements(rt, accI) && !types.Implements(types.NewPointer(rt), accI) {
				if _, isI := rt.Underlying().(*types.Interface); !isI {
					continue
				}
			}
			if len(args) != len(fn.Params)-1 {
				continue // not a forwarder of this signature
			}
			n++
			c.SawFunc(fn)
			key := t.Obj().Pkg().Name() + "." + t.Obj().Name() + "." + m.Name()
			okName := name == m.Name()
			okArgs := true
			for k, a := range args {
				if a != ssa.Value(fn.Params[k+1]) {
					okArgs = false
				}
			}
			c.Ob("R5.1", key, okName && okArgs, p.Pos(call.Pos()),
				fmt.Sprintf("forwards to %s with parameters in order (same name: %v, same order: %v)", name, okName, okArgs))
		}
	}
	c.Floor("R5.1", "accessor implementations", nTypes, 6)
	c.Floor("R5.1", "pure forwarder methods", n, 20)
}

func isFieldOfRecv(v ssa.Value, fn *ssa.Function) bool {
	sl := backSlice(v, SliceOpt{})
	return len(fn.Params) > 0 && sl.Vals[fn.Params[0]] && sl.Has(func(x ssa.Value) bool {
		switch x.(type) {
		case *ssa.FieldAddr, *ssa.Field:
			return true
		}
		return false
	})
}

func c05Wrapped(c *Check) {
	p := c.P
	wrap := p.Func("store", "", "wrapAccessor")
	if wrap == nil {
		c.Unresolved("R5.2", "store.wrapAccessor not found")
		return
	}
	c.SawFunc(wrap)
	// wrapAccessor composes proofs cache, close-once and validation
	need := map[string]bool{"WithProofsCache": false, "WithClosedOnce": false, "WithValidation": false}
	for _, b := range wrap.Blocks {
		for _, ins := range b.Instrs {
			if g, ok := ins.(*ssa.Call); ok && g.Call.StaticCallee() != nil {
				if _, ok := need[g.Call.StaticCallee().Name()]; ok {
					need[g.Call.StaticCallee().Name()] = true
				}
			}
		}
	}
	for k, v := range need {
		c.Ob("R5.2", "wrapAccessor applies "+k, v, p.Pos(wrap.Pos()), "the store's accessor wrapper includes "+k)
	}
	isAccT := func(t types.Type) bool { return namedIs(t, pkgEds, "AccessorStreamer") }
	n := 0
	for _, f := range p.FuncsOfPkg("store") {
		root := rootFunc(f)
		res := f.Signature.Results()
		if res.Len() == 0 || !isAccT(res.At(0).Type()) {
			continue
		}
		if f == wrap {
			continue
		}
		// exported methods of Store/CachedStore, unexported helpers they return from, and loader closures
		n++
		c.SawFunc(f)
		for _, r := range returnsOf(f) {
			cls, _ := classifyReturn(r, errResultIndex(f))
			if cls == retErr {
				continue
			}
			sl := backSlice(r.Results[0], SliceOpt{})
			ok := sl.Has(func(v ssa.Value) bool {
				g, isCall := v.(*ssa.Call)
				if !isCall {
					return false
				}
				if g.Call.StaticCallee() == wrap {
					return true
				}
				if sc := g.Call.StaticCallee(); sc != nil && rootFunc(sc).Pkg != nil && rootFunc(sc).Pkg.Pkg.Path() == pkgStore && sc.Signature.Results().Len() > 0 && isAccT(sc.Signature.Results().At(0).Type()) {
					return true // another store function subject to this same rule
				}
				if g.Call.IsInvoke() && (g.Call.Method.Name() == "Get" || g.Call.Method.Name() == "GetOrLoad") {
					return true // cache hands back what a loader (checked here) put in
				}
				if o := calleeObj(&g.Call); o != nil && pkgPathOf(o) == pkgCache && (o.Name() == "Get" || o.Name() == "GetOrLoad") {
					return true
				}
				return false
			})
			empty := sl.Has(func(v ssa.Value) bool {
				g, isG := v.(*ssa.Global)
				return isG && g.Name() == "EmptyAccessor"
			})
			if isNilConst(r.Results[0]) {
				continue
			}
			if empty && !ok {
				c.Ob("R5.2", fnName(f)+": returns EmptyAccessor", root.Name() == "GetByHash", p.Pos(r.Pos()), "exception: the canonical empty square is returned unwrapped by GetByHash only (serving goes by height)")
				continue
			}
			c.Ob("R5.2", fmt.Sprintf("%s: return@block%d", fnName(f), r.Block().Index), ok, p.Pos(r.Pos()),
				"the accessor handed out derives from wrapAccessor or from a cache lookup")
		}
	}
	c.Floor("R5.2", "store functions returning accessors", n, 6)
}

func c05Layout(c *Check) {
	p := c.P
	pk := p.Pkg("store/file")
	if pk == nil {
		c.Unresolved("R5.3", "package store/file")
		return
	}
	var wt, rf *ast.FuncDecl
	for _, f := range pk.Syntax {
		for _, d := range f.Decls {
			if fd, ok := d.(*ast.FuncDecl); ok && fd.Recv != nil && fd.Body != nil {
				if n := derefNamed(pk.TypesInfo.TypeOf(fd.Recv.List[0].Type)); n != nil && n.Obj().Name() == "headerV0" {
					switch fd.Name.Name {
					case "WriteTo":
						wt = fd
					case "ReadFrom":
						rf = fd
					}
				}
			}
		}
	}
	if wt == nil || rf == nil {
		c.Unresolved("R5.3", "headerV0.WriteTo/ReadFrom not found")
		return
	}
	type rng struct{ lo, hi int64 }
	wr := map[string]rng{}
	rd := map[string]rng{}
	sliceRange := func(e ast.Expr) (rng, bool) {
		switch x := ast.Unparen(e).(type) {
		case *ast.SliceExpr:
			lo, ok1 := constOf(pk, x.Low)
			hi, ok2 := constOf(pk, x.High)
			if ok1 && ok2 {
				return rng{lo, hi}, true
			}
		case *ast.IndexExpr:
			if i, ok := constOf(pk, x.Index); ok {
				return rng{i, i + 1}, true
			}
		}
		return rng{}, false
	}
	// writer: PutUintN(buf[a:b], h.f) ; buf[i] = byte(h.f) ; copy(buf[a:b], h.f)
	ast.Inspect(wt.Body, func(n ast.Node) bool {
		switch x := n.(type) {
		case *ast.CallExpr:
			if len(x.Args) == 2 {
				if r, ok := sliceRange(x.Args[0]); ok {
					if f := selectorField(pk, x.Args[1]); f != "" {
						wr[f] = r
					}
				}
			}
		case *ast.AssignStmt:
			if len(x.Lhs) == 1 && len(x.Rhs) == 1 {
				if r, ok := sliceRange(x.Lhs[0]); ok {
					if f := selectorField(pk, x.Rhs[0]); f != "" {
						wr[f] = r
					}
				}
			}
		}
		return true
	})
	ast.Inspect(rf.Body, func(n ast.Node) bool {
		as, ok := n.(*ast.AssignStmt)
		if !ok || len(as.Lhs) != 1 || len(as.Rhs) != 1 {
			return true
		}
		f := selectorField(pk, as.Lhs[0])
		if f == "" {
			return true
		}
		var found *rng
		ast.Inspect(as.Rhs[0], func(m ast.Node) bool {
			if e, ok := m.(ast.Expr); ok {
				if r, ok := sliceRange(e); ok && found == nil {
					rr := r
					found = &rr
				}
			}
			return true
		})
		if found != nil {
			rd[f] = *found
		}
		return true
	})
	var fields []string
	for f := range wr {
		fields = append(fields, f)
	}
	sort.Strings(fields)
	c.Floor("R5.3", "header fields written", len(wr), 4)
	for _, f := range fields {
		r, ok := rd[f]
		c.Ob("R5.3", "header field "+f, ok && r == wr[f], p.Pos(wt.Pos()), fmt.Sprintf("written at [%d:%d], read at [%d:%d]", wr[f].lo, wr[f].hi, r.lo, r.hi))
	}
	for f := range rd {
		if _, ok := wr[f]; !ok {
			c.Ob("R5.3", "header field "+f, false, p.Pos(rf.Pos()), "read but never written")
		}
	}
	// padding convention
	w := p.Func("store/file", "", "writeODS")
	if w == nil {
		c.Unresolved("R5.3", "writeODS not found")
		return
	}
	c.SawFunc(w)
	// the early `return nil` inside the loops: its guarding condition must be Equals(TailPaddingNamespace)
	nStop := 0
	for _, r := range returnsOf(w) {
		cls, _ := classifyReturn(r, errResultIndex(w))
		if cls != retNil {
			continue
		}
		// guarded by an If whose true edge leads here
		for _, pr := range r.Block().Preds {
			ifi, ok := pr.Instrs[len(pr.Instrs)-1].(*ssa.If)
			if !ok || pr.Succs[0] != r.Block() {
				continue
			}
			// skip the loop exit (range loops end with an If too)
			if strings.HasPrefix(pr.Comment, "rangeint") || strings.HasPrefix(pr.Comment, "for.") {
				continue
			}
			nStop++
			g, isCall := ifi.Cond.(*ssa.Call)
			okPred := false
			if isCall {
				if o := calleeObj(&g.Call); o != nil && o.Name() == "Equals" {
					for _, a := range g.Call.Args {
						if ld, ok := a.(*ssa.UnOp); ok {
							if gl, ok := ld.X.(*ssa.Global); ok && gl.Name() == "TailPaddingNamespace" {
								okPred = true
							}
						}
					}
				}
			}
			c.Ob("R5.3", "writer stop predicate", okPred, p.Pos(ifi.Pos()), "the writer omits exactly the shares whose namespace equals libshare.TailPaddingNamespace (readers substitute tail-padding shares for what is missing)")
		}
	}
	c.Floor("R5.3", "early stop sites in writeODS", nStop, 1)
	fills := p.allCallSites(func(o *types.Func) bool {
		return o.Name() == "TailPaddingShare" && strings.HasSuffix(pkgPathOf(o), "go-square/v4/share")
	})
	nf := 0
	for _, s := range fills {
		pp := rootFunc(s.Parent()).Pkg.Pkg.Path()
		if pp == pkgFile || pp == pkgEds {
			nf++
		}
	}
	c.Ob("R5.3", "readers substitute tail padding", nf >= 3, p.Pos(w.Pos()), fmt.Sprintf("%d reader sites fill missing shares with libshare.TailPaddingShare()", nf))
}

// ---------------- C07 ----------------

func runC07(c *Check) {
	p := c.P
	c.Rule("R7.1", "height link only after a complete (created or validated) file")
	c.Rule("R7.2", "write-mode opens are exclusive creates")
	c.Rule("R7.3", "error returns after a create/link attempt pass a rollback")
	c.Rule("R7.4", "file descriptors closed on every failure path")
	c.Rule("R7.5", "empty block is linked, never written")
	link := p.Func("store", "Store", "linkHeight")
	if link == nil {
		c.Unresolved("R7.1", "linkHeight not found")
		return
	}
	isErrExist := func(g *ssa.Call) bool {
		if g.Call.StaticCallee() == nil || g.Call.StaticCallee().String() != "errors.Is" {
			return false
		}
		ld, ok := g.Call.Args[1].(*ssa.UnOp)
		if !ok {
			return false
		}
		gl, ok := ld.X.(*ssa.Global)
		return ok && gl.Name() == "ErrExist"
	}
	n := 0
	for _, name := range []string{"createODSQ4File", "createODSFile"} {
		fn := p.Func("store", "Store", name)
		if fn == nil {
			c.Unresolved("R7.1", name+" not found")
			continue
		}
		c.SawFunc(fn)
		tg := blocksWhere(fn, func(ins ssa.Instruction) bool {
			g, ok := ins.(*ssa.Call)
			return ok && g.Call.StaticCallee() == link
		})
		n += len(tg)
		cut := callGates(func(g *ssa.Call, _ int) GateKind {
			sc := g.Call.StaticCallee()
			if sc == nil {
				return NotGate
			}
			if strings.HasPrefix(sc.Name(), "CreateODS") && rootFunc(sc).Pkg != nil && rootFunc(sc).Pkg.Pkg.Path() == pkgFile {
				return GateErr
			}
			if strings.HasPrefix(sc.Name(), "validateAndRecover") {
				return GateErr
			}
			return NotGate
		})
		res := gateWalk(p, fn, tg, cut, nil)
		c.Ob("R7.1", name+": link after complete file", !res.Reached && !res.Overflow, p.Pos(fn.Pos()),
			"linkHeight is reached only across Create* success or validateAndRecover* success", res.Witness...)
		// the exist path must pass validation: with the fact errors.Is(err, ErrExist)=true seeded, the Create success edge alone must not discharge
		k := newKeyer(fn)
		existKey := ""
		for _, b := range fn.Blocks {
			for _, ins := range b.Instrs {
				if g, ok := ins.(*ssa.Call); ok && isErrExist(g) {
					if kk := k.key(g); existKey == "" {
						existKey = kk
					}
				}
			}
		}
		if existKey != "" {
			vcut := callGates(func(g *ssa.Call, _ int) GateKind {
				if sc := g.Call.StaticCallee(); sc != nil && strings.HasPrefix(sc.Name(), "validateAndRecover") {
					return GateErr
				}
				return NotGate
			})
			res = gateWalkFacts(p, fn, tg, vcut, nil, nil, map[string]bool{existKey: true})
			c.Ob("R7.1", name+": existing file validated before link", !res.Reached && !res.Overflow, p.Pos(fn.Pos()),
				"when the file already exists, linkHeight is reached only across validateAndRecover* success (a partially written file is never linked)", res.Witness...)
		} else {
			c.Ob("R7.1", name+": existing file validated before link", false, p.Pos(fn.Pos()), "no canonical errors.Is(err, os.ErrExist) test found")
		}
		// R7.3 rollback
		rb := blocksWhere(fn, func(ins ssa.Instruction) bool {
			g, ok := ins.(*ssa.Call)
			if !ok || g.Call.StaticCallee() == nil {
				return false
			}
			nm := g.Call.StaticCallee().Name()
			return strings.HasPrefix(nm, "removeODS") || strings.HasPrefix(nm, "validateAndRecover")
		})
		var errRets = map[*ssa.BasicBlock]bool{}
		for _, r := range returnsOf(fn) {
			if isFailureReturn(r, fn) && !rb[r.Block()] {
				errRets[r.Block()] = true
			}
		}
		res = gateWalkBarrier(p, fn, errRets, nil, rb)
		c.Ob("R7.3", name+": rollback on failure", !res.Reached, p.Pos(fn.Pos()), "every error return passes removeODS*/validateAndRecover* (no partially written file is left behind unrecorded)", res.Witness...)
	}
	c.Floor("R7.1", "linkHeight call sites for non-empty blocks", n, 2)
	// validateAndRecover*: remove before re-create
	for _, name := range []string{"validateAndRecoverODSQ4", "validateAndRecoverODS"} {
		fn := p.Func("store", "Store", name)
		if fn == nil {
			c.Unresolved("R7.3", name+" not found")
			continue
		}
		c.SawFunc(fn)
		tg := blocksWhere(fn, func(ins ssa.Instruction) bool {
			g, ok := ins.(*ssa.Call)
			return ok && g.Call.StaticCallee() != nil && strings.HasPrefix(g.Call.StaticCallee().Name(), "CreateODS")
		})
		res := gateWalk(p, fn, tg, callGates(func(g *ssa.Call, _ int) GateKind {
			if sc := g.Call.StaticCallee(); sc != nil && strings.HasPrefix(sc.Name(), "removeODS") {
				return GateErr
			}
			return NotGate
		}), nil)
		c.Ob("R7.3", name+": remove before re-create", !res.Reached && len(tg) > 0, p.Pos(fn.Pos()), "a corrupted file is removed (successfully) before it is re-created", res.Witness...)
		// a valid size check is what lets the existing file pass
		succ := blocksOfReturns(successReturns(fn))
		res = gateWalk(p, fn, succ, callGates(func(g *ssa.Call, _ int) GateKind {
			sc := g.Call.StaticCallee()
			if sc != nil && (strings.HasPrefix(sc.Name(), "ValidateODS") || strings.HasPrefix(sc.Name(), "CreateODS")) {
				return GateErr
			}
			return NotGate
		}), nil)
		c.Ob("R7.3", name+": success only via valid size or re-create", !res.Reached, p.Pos(fn.Pos()), "success is returned only across ValidateODS*Size success or a successful re-create", res.Witness...)
	}
	// R7.2
	opens := p.allCallSites(func(o *types.Func) bool { return pkgPathOf(o) == "os" && (o.Name() == "OpenFile" || o.Name() == "Create") })
	nw := 0
	for _, s := range opens {
		r := rootFunc(s.Parent())
		if r.Pkg == nil || !strings.HasPrefix(r.Pkg.Pkg.Path(), pkgStore) {
			continue
		}
		nw++
		if calleeObj(s.Common()).Name() == "Create" {
			c.Ob("R7.2", "os.Create@"+fnName(s.Parent()), false, p.Pos(s.Pos()), "os.Create truncates an existing file")
			continue
		}
		k, ok := s.Common().Args[1].(*ssa.Const)
		flags := int64(-1)
		if ok && k.Value != nil {
			flags, _ = constant.Int64Val(constant.ToInt(k.Value))
		}
		const oCreate, oExcl, oWronly, oRdwr = 0x40, 0x80, 0x1, 0x2
		writes := flags >= 0 && (flags&oWronly != 0 || flags&oRdwr != 0)
		c.Ob("R7.2", "os.OpenFile@"+fnName(s.Parent()), flags >= 0 && (!writes || flags&oCreate != 0 && flags&oExcl != 0), p.Pos(s.Pos()),
			fmt.Sprintf("flags %#x: write-mode opens must be O_CREATE|O_EXCL", flags))
	}
	c.Floor("R7.2", "os.OpenFile sites under store/", nw, 2)
	// R7.4
	nfd := 0
	for _, f := range append(p.FuncsOfPkg("store/file"), p.FuncsOfPkg("store")...) {
		nfd += pairAcquireRelease(c, "R7.4", f, func(g *ssa.Call) bool {
			o := calleeObj(&g.Call)
			if o == nil {
				return false
			}
			if pkgPathOf(o) == "os" && (o.Name() == "Open" || o.Name() == "OpenFile") {
				return true
			}
			return pkgPathOf(o) == pkgFile && (o.Name() == "OpenODS" || o.Name() == "OpenODSQ4" || o.Name() == "openQ4")
		}, "Close", "file")
	}
	c.Floor("R7.4", "file open sites", nfd, 4)
	// R7.6: partial files are recognised by their size only, so nothing may change a file's size except writing content
	c.Rule("R7.6", "no size-changing call (Truncate, fallocate, Seek past the end) on store files: partial writes are detected by size")
	sizeChanging := p.allCallSites(func(o *types.Func) bool {
		if pkgPathOf(o) == "os" && recvNamed(o) != nil && recvNamed(o).Obj().Name() == "File" && o.Name() == "Truncate" {
			return true
		}
		if pkgPathOf(o) == "os" && o.Name() == "Truncate" {
			return true
		}
		return (pkgPathOf(o) == "syscall" || strings.HasSuffix(pkgPathOf(o), "x/sys/unix")) && (o.Name() == "Fallocate" || o.Name() == "Ftruncate" || o.Name() == "Truncate")
	})
	nSC := 0
	for _, s := range sizeChanging {
		r := rootFunc(s.Parent())
		if r.Pkg == nil || !strings.HasPrefix(r.Pkg.Pkg.Path(), pkgStore) {
			continue
		}
		nSC++
		c.Ob("R7.6", calleeObj(s.Common()).Name()+"@"+fnName(s.Parent()), false, p.Pos(s.Pos()),
			"the file's size is set independently of its content: a crash afterwards leaves a full-size file that ValidateODS*Size accepts although its tail was never written")
	}
	liveW := 0
	for _, s := range p.allCallSites(func(o *types.Func) bool { return pkgPathOf(o) == "os" && recvNamed(o) != nil && recvNamed(o).Obj().Name() == "File" && o.Name() == "Close" }) {
		if r := rootFunc(s.Parent()); r.Pkg != nil && strings.HasPrefix(r.Pkg.Pkg.Path(), pkgStore) {
			liveW++
		}
	}
	c.Floor("R7.6", "(*os.File).Close call sites under store/ (matcher liveness)", liveW, 2)
	c.Ob("R7.6", "no size-changing calls", nSC == 0, "-", fmt.Sprintf("%d size-changing calls under store/; the same matcher sees %d (*os.File).Close sites", nSC, liveW))
	// R7.7: removal removes every file of the block
	c.Rule("R7.7", "a successful removal has removed the block's files by hash, not only the height link")
	for _, rm := range []struct{ name, ext string }{{"removeODS", "odsFileExt"}, {"removeQ4", "q4FileExt"}} {
		fn := p.Func("store", "Store", rm.name)
		if fn == nil {
			c.Unresolved("R7.7", rm.name+" not found")
			continue
		}
		c.SawFunc(fn)
		byHash := blocksWhere(fn, func(ins ssa.Instruction) bool {
			g, ok := ins.(*ssa.Call)
			if !ok || g.Call.StaticCallee() == nil || g.Call.StaticCallee().Name() != "remove" {
				return false
			}
			return backSlice(g.Call.Args[0], SliceOpt{CallArgs: true}).Has(func(v ssa.Value) bool {
				h, ok := v.(*ssa.Call)
				return ok && h.Call.StaticCallee() != nil && h.Call.StaticCallee().Name() == "hashToPath"
			})
		})
		emptyCut := callGates(func(g *ssa.Call, _ int) GateKind {
			if o := calleeObj(&g.Call); o != nil && o.Name() == "IsEmptyEDS" {
				return GateTrue
			}
			return NotGate
		})
		// success returns that are not in the by-hash removal's own error handling
		tg := map[*ssa.BasicBlock]bool{}
		for _, r := range successReturns(fn) {
			tg[r.Block()] = true
		}
		res := gateWalkOpts(p, fn, minusBarrier(tg, byHash), emptyCut, nil, byHash)
		c.Ob("R7.7", rm.name+": file removed by hash", len(byHash) > 0 && !res.Reached, p.Pos(fn.Pos()),
			"for a non-empty block every success return passes remove(hashToPath(datahash, ...)): a missing height link (crash before linking) must not skip the removal of a partially written file", res.Witness...)
	}
	// R7.5
	put := p.Func("store", "Store", "put")
	if put != nil {
		c.SawFunc(put)
		var emptySucc *ssa.BasicBlock
		for _, b := range put.Blocks {
			if ifi, ok := b.Instrs[len(b.Instrs)-1].(*ssa.If); ok {
				if g, ok := ifi.Cond.(*ssa.Call); ok {
					if o := calleeObj(&g.Call); o != nil && o.Name() == "IsEmptyEDS" {
						emptySucc = b.Succs[0]
					}
				}
			}
		}
		if emptySucc == nil {
			c.Unresolved("R7.5", "empty-block branch in put not found")
		} else {
			isCreate := func(f *ssa.Function) bool { return strings.HasPrefix(f.Name(), "createODS") }
			writes := blocksWhere(put, func(ins ssa.Instruction) bool {
				g, ok := ins.(*ssa.Call)
				return ok && g.Call.StaticCallee() != nil && p.reachesStatic(g.Call.StaticCallee(), isCreate, 2)
			})
			res := gateWalkOpts(p, put, writes, nil, emptySucc, nil)
			// the link may be made by a helper extracted from put (putEmpty-style)
			links := blocksWhere(put, func(ins ssa.Instruction) bool {
				g, ok := ins.(*ssa.Call)
				return ok && g.Call.StaticCallee() != nil && p.reachesStatic(g.Call.StaticCallee(), func(f *ssa.Function) bool { return f == link }, 2)
			})
			c.Ob("R7.5", "empty block only linked", !res.Reached && len(links) >= 1, p.Pos(put.Pos()), "on the empty-data-hash side put reaches linkHeight and never a file creation", res.Witness...)
		}
	} else {
		c.Unresolved("R7.5", "Store.put not found")
	}
	c07ErrorsAndSizes(c, "R7.8", "R7.9")
}

// c07ErrorsAndSizes: (errRule) no error of the file layer is discarded - a write or
// flush error that is dropped lets put() link and report a truncated file;
// (sizeRule) the size validation that decides "this existing file is complete"
// is an exact equality with the size computed from the square.
func c07ErrorsAndSizes(c *Check, errRule, sizeRule string) {
	p := c.P
	c.Rule(errRule, "no error of the file layer is discarded on the write, validate and remove paths")
	c.Rule(sizeRule, "existing files are accepted only if their size equals the size computed from the square")
	n := checkNoDroppedErrors(c, errRule, storeDroppedErrExempt, "store/file", "store")
	c.Floor(errRule, "calls with a discarded error in store and store/file (all reasoned)", n, 1)
	nrx := checkReceivedErrorsGateSuccess(c, errRule, "store/file", "store")
	c.Floor(errRule, "errors received from writer goroutines", nrx, 1)
	nv := 0
	for _, f := range p.FuncsOfPkg("store/file") {
		if f.Parent() != nil || !strings.Contains(strings.ToLower(f.Name()), "validate") || !strings.HasSuffix(f.Name(), "Size") {
			continue
		}
		// only the functions that themselves stat the file
		var sizeCalls []*ssa.Call
		for _, b := range f.Blocks {
			for _, ins := range b.Instrs {
				if g, ok := ins.(*ssa.Call); ok && g.Call.IsInvoke() && g.Call.Method.Name() == "Size" && len(g.Call.Args) == 0 {
					if n := derefNamed(g.Call.Value.Type()); n != nil && n.Obj().Name() == "FileInfo" {
						sizeCalls = append(sizeCalls, g)
					}
				}
			}
		}
		if len(sizeCalls) == 0 {
			continue
		}
		nv++
		c.SawFunc(f)
		var sq *ssa.Parameter
		for _, pr := range f.Params {
			if n := derefNamed(pr.Type()); n != nil && n.Obj().Name() == "ExtendedDataSquare" {
				sq = pr
			}
		}
		cut, gates := failGates(f, func(cond ssa.Value, sl *Slice) bool {
			x, y, ok := comparisonOperands(cond)
			if !ok {
				return false
			}
			sx, sy := backSlice(x, SliceOpt{CallArgs: true, CalleeDepth: 2, P: p}), backSlice(y, SliceOpt{CallArgs: true, CalleeDepth: 2, P: p})
			isSize := func(s *Slice) bool {
				for _, k := range sizeCalls {
					if s.Vals[k] {
						return true
					}
				}
				return false
			}
			fromSq := func(s *Slice) bool { return sq != nil && s.Vals[sq] }
			return (isSize(sx) && fromSq(sy) && !isSize(sy)) || (isSize(sy) && fromSq(sx) && !isSize(sx))
		})
		res := gateWalk(p, f, blocksOfReturns(successReturns(f)), cut, nil)
		c.Ob(sizeRule, fnName(f)+": exact size", len(gates) > 0 && !res.Reached, p.Pos(f.Pos()),
			"success only across a rejecting (in)equality test of the file's size against a size computed from the square (a range or alignment test accepts a file torn at a share boundary)", res.Witness...)
	}
	c.Floor(sizeRule, "size validators that stat a file", nv, 2)
}

// storeDroppedErrExempt: confirmed by reading; callee@function substring -> reason.
var storeDroppedErrExempt = map[string]string{
	"(*os.File).Close@store/file.validateQ4Size": "deferred Close of a descriptor opened read-only with os.Open: nothing can be lost",
}

// ---------------- C08 ----------------

func storeLockClass(n string) string {
	if strings.Contains(n, "striplock") || strings.Contains(n, "multiLock") {
		return "store.stripes"
	}
	if strings.Contains(n, "AccessorCache).getLock") || strings.Contains(n, "stripedLocks") {
		return "cache.stripes"
	}
	return n
}

func runC08(c *Check) {
	p := c.P
	c.Rule("R8.1", "no lock-order cycle across store, cache, file and eds wrappers")
	c.Rule("R8.2", "guarded-by for cached squares, accessor life-cycle flags and the proofs cache")
	c.Rule("R8.3", "cache miss and Add happen in one critical section of the height stripe")
	c.Rule("R8.4", "every lock taken in a function is released on all of its paths")
	c.Rule("R8.5", "closeOnce methods test `closed` before touching the wrapped accessor")
	la := newLockAnalysis(p, "store", "store/cache", "store/file", "share/eds")
	// normalise names
	for i := range la.edges {
		la.edges[i].from, la.edges[i].to = storeLockClass(la.edges[i].from), storeLockClass(la.edges[i].to)
	}
	classes := map[string]bool{}
	for l := range la.locks {
		classes[storeLockClass(l)] = true
	}
	var cl []string
	for k := range classes {
		cl = append(cl, k)
	}
	sort.Strings(cl)
	c.Note("lock classes: %v", cl)
	c.Floor("R8.1", "lock classes in the store packages", len(classes), 5)
	cyc := la.cycles(func(string) bool { return true })
	nCyc := 0
	for _, cy := range cyc {
		var names, path []string
		for _, e := range cy {
			names = append(names, e.from)
			path = append(path, e.from+" -> "+e.to+": "+e.where)
		}
		if len(cy) == 1 && cy[0].from == "store.stripes" && strings.Contains(cy[0].where, "multiLock") {
			c.Ob("R8.1", "self:store.stripes (multiLock)", true, "-", "exception: the multi-lock helper takes the hash stripe and then the height stripe, always in that order")
			continue
		}
		nCyc++
		c.Ob("R8.1", "cycle:"+strings.Join(names, "->"), false, "-", "lock-order cycle (deadlock candidate): "+strings.Join(names, " -> ")+" -> "+names[0], path...)
	}
	if nCyc == 0 {
		c.Ob("R8.1", "lock-order graph acyclic", true, "-", fmt.Sprintf("%d lock classes, %d order edges", len(classes), len(la.edges)))
	}
	seenEdge := map[string]bool{}
	for _, e := range la.edges {
		k := e.from + " -> " + e.to
		if !seenEdge[k] {
			seenEdge[k] = true
			c.Note("order edge %s (%s)", k, e.where)
		}
	}
	// R8.2
	n := 0
	n += la.checkGuarded(c, "R8.2", guardRule{pkgFile, "ODS", []string{"ods"}, "file.ODS.lock", "the in-memory square is filled lazily by concurrent readers",
		map[string]string{"ODS).readAxisHalf": "re-reads o.ods after RUnlock; the value only changes from nil to a square equal to any later one; a race could not be produced at run time (not a finding)",
			"ODS).readODS": "conditional locking: the write lock is taken and o.ods stored only when the cache is enabled (both under the same !disableCache test)",
			"file.CreateODS": "constructor", "file.OpenODS": "constructor", "file.createODS": "constructor", "ODS).Close": "owner-only"}})
	n += la.checkGuarded(c, "R8.2", guardRule{pkgCache, "accessor", []string{"isClosed", "done"}, "cache.accessor.lock", "reference counting vs. forced close", map[string]string{}})
	n += la.checkGuarded(c, "R8.2", guardRule{pkgEds, "proofsCache", []string{"axisCache"}, "eds.proofsCache.axisCacheLock", "axis cache filled by concurrent readers",
		map[string]string{"eds.WithProofsCache": "constructor"}})
	c.Floor("R8.2", "guarded field accesses", n, 6)
	c08CheckThenAdd(c, la)
	// R8.4
	nLockFns := 0
	for _, f := range la.funcs {
		locks := false
		for _, b := range f.Blocks {
			for _, ins := range b.Instrs {
				if ci, ok := ins.(ssa.CallInstruction); ok {
					if op := lockOpOf(ci); op != nil && op.acquire {
						locks = true
					}
				}
			}
		}
		if !locks {
			continue
		}
		nLockFns++
		held := la.netAcquire[f]
		isWrapper := f.Name() == "lock" && f.Signature.Recv() != nil
		c.Ob("R8.4", fnName(f), len(held) == 0 || isWrapper, p.Pos(f.Pos()), fmt.Sprintf("locks still held at some return: %v (only the multi-lock helper may return holding locks)", held.keys()))
		if !isWrapper {
			la.checkReleasedAtReturns(c, "R8.4", f)
		}
	}
	c.Floor("R8.4", "functions that take locks", nLockFns, 15)
	// R8.6 no blocking wait under a lock: the accessor's close() waits for readers on a channel that
	// removeRef closes under accessor.lock; waiting with that (or any store) lock held deadlocks until the timeout.
	c.Rule("R8.6", "no channel wait, select or sleep while a store/cache lock is held")
	nWait := la.checkNoBlockingUnderLock(c, "R8.6", nil)
	c.Floor("R8.6", "blocking operations in the store packages", nWait, 1)
	c08CloseOnce(c)
	c08CacheLayers(c)
	c08RemovalEvicts(c, la)
}

func c08CheckThenAdd(c *Check, la *lockAnalysis) {
	p := c.P
	fn := p.Func("store/cache", "AccessorCache", "GetOrLoad")
	if fn == nil {
		c.Unresolved("R8.3", "AccessorCache.GetOrLoad not found")
		return
	}
	c.SawFunc(fn)
	isLRU := func(g *ssa.Call, name string) bool {
		o := calleeObj(&g.Call)
		return o != nil && o.Name() == name && strings.Contains(pkgPathOf(o), "lru") && fieldOfAddr(g.Call.Args[0]) != nil && fieldOfAddr(g.Call.Args[0]).Name() == "cache"
	}
	var gets, adds []*ssa.Call
	unlocks := map[*ssa.BasicBlock]bool{}
	for _, b := range fn.Blocks {
		for _, ins := range b.Instrs {
			if g, ok := ins.(*ssa.Call); ok {
				if isLRU(g, "Get") || isLRU(g, "Peek") || isLRU(g, "Contains") {
					gets = append(gets, g)
				}
				if isLRU(g, "Add") {
					adds = append(adds, g)
				}
				if op := lockOpOf(g); op != nil && !op.acquire {
					unlocks[b] = true
				}
			}
		}
	}
	if len(gets) == 0 || len(adds) == 0 {
		c.Unresolved("R8.3", "LRU Get/Add in GetOrLoad not found")
		return
	}
	for _, a := range adds {
		held := la.mustBefore[a]
		stripe := false
		for l := range held {
			if storeLockClass(l) == "cache.stripes" {
				stripe = true
			}
		}
		c.Ob("R8.3", "Add under the stripe lock", stripe, p.Pos(a.Pos()), "the freshly loaded accessor is added with the height's stripe lock held")
		// no unlock between the lookup and the Add
		released := false
		for _, g := range gets {
			for ub := range unlocks {
				r1 := gateWalkFrom(p, fn, g.Block(), map[*ssa.BasicBlock]bool{ub: true}, nil, nil)
				r2 := gateWalkFrom(p, fn, ub, map[*ssa.BasicBlock]bool{a.Block(): true}, nil, nil)
				if (r1.Reached || ub == g.Block()) && (r2.Reached || ub == a.Block()) {
					released = true
				}
			}
		}
		c.Ob("R8.3", "lookup and Add in one critical section", !released, p.Pos(a.Pos()),
			"no unlock lies on a path from the LRU lookup to the Add: two concurrent misses cannot both load and add (the second Add would orphan the first accessor without closing it)")
	}
}

func c08CloseOnce(c *Check) {
	p := c.P
	co := p.Named("share/eds", "closeOnce")
	if co == nil {
		c.Unresolved("R8.5", "eds.closeOnce not found")
		return
	}
	n := 0
	for i := 0; i < co.NumMethods(); i++ {
		m := co.Method(i)
		fn := p.SSA.FuncValue(m)
		if fn == nil || fn.Blocks == nil || m.Name() == "Close" {
			continue
		}
		// accesses of field f
		tg := blocksWhere(fn, func(ins ssa.Instruction) bool {
			fa, ok := ins.(*ssa.FieldAddr)
			return ok && fieldOf(fa) != nil && fieldOf(fa).Name() == "f"
		})
		if len(tg) == 0 {
			continue
		}
		n++
		c.SawFunc(fn)
		cut := func(b *ssa.BasicBlock, ifi *ssa.If) (bool, bool) {
			a := stripNot(ifi.Cond)
			g, ok := a.Base.(*ssa.Call)
			if !ok {
				return false, false
			}
			o := calleeObj(&g.Call)
			if o == nil || pkgPathOf(o) != "sync/atomic" || o.Name() != "Load" {
				return false, false
			}
			if f := fieldOfAddr(g.Call.Args[0]); f == nil || f.Name() != "closed" {
				return false, false
			}
			// cut the "not closed" edge
			return a.Neg, !a.Neg
		}
		res := gateWalk(p, fn, tg, cut, nil)
		c.Ob("R8.5", "closeOnce."+m.Name(), !res.Reached, p.Pos(fn.Pos()), "the wrapped accessor is touched only across closed.Load() == false", res.Witness...)
	}
	c.Floor("R8.5", "guarded methods of closeOnce", n, 9)
}

var _ = token.ADD
