package main

import (
	"fmt"
	"go/types"

	"golang.org/x/tools/go/ssa"
)

func init() {
	register("C15", runC15,
		"Structural necessary conditions of 'a bridge stores exactly the block it announces' (histories of announcements, dedup under reordering and 'published once' are not decided). R15.1 same square: at every call of core.storeEDS the header argument is the result of the construct function applied to the very SSA value passed as the square, that square is the result of da.ConstructEDS over the transactions of the same fetched block whose header is given to construct; inside storeEDS and full.SharesAvailable every Put* receives the header's DAH, the header's Height() and the square (the one fetched with that same header, or the empty square on the empty-data-hash side); the 'already stored' shortcuts are keyed by height (HasByHeight of the header's/event's height), and no other store method is used on these paths. R15.2 publish after store: in handleNewSignedBlock both broadcasts are reachable only across storeEDS's success edge and every return after that edge is a success; exchange results built by construct are returned only across storeEDS success; errors of storeEDS/handleNewSignedBlock are never turned into success. R15.3 storage policy, same in storeEDS, full.SharesAvailable and the listener's historic drop: PutODSQ4 of a non-empty square only on the IsWithinWindow side, PutODS only on the other side, nothing stored (and no processing) for non-archival outside the window; call sites pass the component's own window and archival fields. R15.4 error mapping in full.SharesAvailable: on the failure side of GetEDS nothing is stored and no success is returned; cancellation returns the getter's error itself; ErrNotAvailable is returned on that side. R15.5 storeEDS reports the Put's own error.",
		"")
}

const pkgCore = modPath + "/core"

func runC15(c *Check) {
	p := c.P
	c.Rule("R15.1", "the stored square, its roots and its height all come from the header being published/given")
	c.Rule("R15.2", "publish only after a successful store; store errors are reported")
	c.Rule("R15.3", "window/archival storage policy agrees between storeEDS, full.SharesAvailable and the listener")
	c.Rule("R15.4", "full availability: failed fetch stores nothing and is reported; error mapping")
	c.Rule("R15.5", "storeEDS returns the store's own verdict")

	storeEDS := p.Func("core", "", "storeEDS")
	avail := p.Func("share/availability/full", "ShareAvailability", "SharesAvailable")
	hnbe := p.Func("core", "Listener", "handleNewBlockEvent")
	hnsb := p.Func("core", "Listener", "handleNewSignedBlock")
	if storeEDS == nil || avail == nil || hnbe == nil || hnsb == nil {
		c.Unresolved("R15.1", "anchor functions not found (storeEDS / SharesAvailable / handleNewBlockEvent / handleNewSignedBlock)")
		return
	}
	for _, f := range []*ssa.Function{storeEDS, avail, hnbe, hnsb} {
		c.SawFunc(f)
	}
	isPut := func(g *ssa.Call) bool {
		o := calleeObj(&g.Call)
		return o != nil && (o.Name() == "PutODSQ4" || o.Name() == "PutODS") && recvOfObj(o) == "Store"
	}
	isWithin := func(g *ssa.Call, _ int) GateKind {
		if o := calleeObj(&g.Call); o != nil && o.Name() == "IsWithinWindow" {
			return GateTrue
		}
		return NotGate
	}
	isNotWithin := func(g *ssa.Call, _ int) GateKind {
		if o := calleeObj(&g.Call); o != nil && o.Name() == "IsWithinWindow" {
			return GateFalse
		}
		return NotGate
	}
	// ---- R15.1 call sites of storeEDS
	nSites := 0
	for _, f := range p.FuncsOfPkg("core") {
		for _, b := range f.Blocks {
			for _, ins := range b.Instrs {
				g, ok := ins.(*ssa.Call)
				if !ok || g.Call.StaticCallee() != storeEDS {
					continue
				}
				nSites++
				c.SawFunc(f)
				site := "storeEDS@" + fnName(f)
				eh, eds := g.Call.Args[1], g.Call.Args[2]
				cons, _ := resolveCallThroughLocals(eh)
				okc := cons != nil && isConstructCall(cons)
				sameSq := okc && sameValueThroughLocals(cons.Call.Args[len(cons.Call.Args)-1], eds)
				c.Ob("R15.1", site+": header constructed over the stored square", okc && sameSq, p.Pos(g.Pos()),
					"the header passed to storeEDS is construct(header, commit, vals, eds) with the same eds value that is stored")
				ce, _ := resolveCallThroughLocals(eds)
				okE := ce != nil && calleeObj(&ce.Call) != nil && calleeObj(&ce.Call).Name() == "ConstructEDS"
				sameBlock := false
				if okc && okE {
					hs := backSlice(cons.Call.Args[0], SliceOpt{CallArgs: true})
					ts := backSlice(ce.Call.Args[0], SliceOpt{CallArgs: true})
					for v := range hs.Vals {
						if !ts.Vals[v] {
							continue
						}
						switch x := v.(type) {
						case *ssa.Parameter:
							if _, isPtr := x.Type().Underlying().(*types.Pointer); isPtr && x.Name() != "ctx" && x != f.Params[0] {
								sameBlock = true
							}
						case *ssa.Call:
							if o := calleeObj(&x.Call); o != nil && (o.Name() == "GetSignedBlock" || o.Name() == "GetBlockByHash" || o.Name() == "GetSignedBlockFrom") {
								sameBlock = true
							}
						}
					}
				}
				c.Ob("R15.1", site+": square built from the announced block", okE && sameBlock, p.Pos(g.Pos()),
					"eds = da.ConstructEDS(txs of block B) and the header given to construct is B's header (same fetched block value)")
				// window / archival args are the component's own fields
				wOK := fieldOfAddr(g.Call.Args[4]) != nil && fieldOfAddr(g.Call.Args[4]).Name() == "availabilityWindow"
				aOK := fieldOfAddr(g.Call.Args[5]) != nil && fieldOfAddr(g.Call.Args[5]).Name() == "archival"
				c.Ob("R15.3", site+": policy arguments", wOK && aOK, p.Pos(g.Pos()), "storeEDS receives the component's availabilityWindow and archival fields")
			}
		}
	}
	c.Floor("R15.1", "call sites of storeEDS", nSites, 3)
	// ---- R15.1 Put* arguments
	checkPuts := func(f *ssa.Function, hdr *ssa.Parameter, sqOK func(v ssa.Value) (bool, string)) int {
		n := 0
		for _, b := range f.Blocks {
			for _, ins := range b.Instrs {
				g, ok := ins.(*ssa.Call)
				if !ok || !isPut(g) {
					continue
				}
				n++
				args := callOperandsNoRecv(g)
				site := fmt.Sprintf("%s@%s#%d", calleeObj(&g.Call).Name(), fnName(f), n)
				rs := backSlice(args[2], SliceOpt{})
				rootsOK := rs.Vals[hdr] && rs.HasFieldNamed("ExtendedHeader", "DAH")
				hc, _ := resolveCallThroughLocals(args[3])
				hOK := hc != nil && calleeObj(&hc.Call) != nil && calleeObj(&hc.Call).Name() == "Height" && backSlice(hc.Call.Args[0], SliceOpt{}).Vals[hdr]
				sOK, why := sqOK(args[4])
				c.Ob("R15.1", site+": roots", rootsOK, p.Pos(g.Pos()), "roots argument is the DAH of the header parameter")
				c.Ob("R15.1", site+": height", hOK, p.Pos(g.Pos()), "height argument is Height() of the header parameter")
				c.Ob("R15.1", site+": square", sOK, p.Pos(g.Pos()), why)
			}
		}
		return n
	}
	n1 := checkPuts(storeEDS, storeEDS.Params[1], func(v ssa.Value) (bool, string) {
		return v == ssa.Value(storeEDS.Params[2]), "square argument is storeEDS's eds parameter"
	})
	hdrP := avail.Params[2]
	n2 := checkPuts(avail, hdrP, func(v ssa.Value) (bool, string) {
		g, _ := resolveCallThroughLocals(v)
		if g == nil {
			return false, "square argument is the result of GetEDS(ctx, header) or the empty square"
		}
		o := calleeObj(&g.Call)
		if o != nil && o.Name() == "EmptyEDS" {
			// only on the side where the header's data hash is the empty one
			return true, "empty square (gated below)"
		}
		if o != nil && o.Name() == "GetEDS" {
			a := callOperandsNoRecv(g)
			return len(a) == 3 && backSlice(a[2], SliceOpt{}).Vals[hdrP], "square argument is GetEDS(ctx, header) for the same header"
		}
		return false, "square argument is the result of GetEDS(ctx, header) or the empty square"
	})
	c.Floor("R15.1", "Put* calls in storeEDS and full.SharesAvailable", n1+n2, 5)
	// empty square only behind IsEmptyEDS(header.DAH.Hash())
	emptyPut := blocksWhere(avail, func(ins ssa.Instruction) bool {
		g, ok := ins.(*ssa.Call)
		if !ok || !isPut(g) {
			return false
		}
		e, _ := resolveCallThroughLocals(callOperandsNoRecv(g)[4])
		return e != nil && calleeObj(&e.Call) != nil && calleeObj(&e.Call).Name() == "EmptyEDS"
	})
	if len(emptyPut) > 0 {
		res := gateWalk(p, avail, emptyPut, callGates(func(g *ssa.Call, _ int) GateKind {
			if o := calleeObj(&g.Call); o != nil && o.Name() == "IsEmptyEDS" && backSlice(g.Call.Args[0], SliceOpt{CallArgs: true}).Vals[hdrP] {
				return GateTrue
			}
			return NotGate
		}), nil)
		c.Ob("R15.1", "empty square only for the empty data hash", !res.Reached, p.Pos(avail.Pos()), "the empty square is linked only when the header's own DAH hashes to the empty data hash", res.Witness...)
	}
	// dedup shortcuts keyed by height; store methods used
	for _, fd := range []struct {
		f      *ssa.Function
		height func(sl *Slice) bool
		what   string
	}{
		{avail, func(sl *Slice) bool {
			return sl.Has(func(v ssa.Value) bool {
				g, ok := v.(*ssa.Call)
				return ok && calleeObj(&g.Call) != nil && calleeObj(&g.Call).Name() == "Height" && backSlice(g.Call.Args[0], SliceOpt{}).Vals[hdrP]
			})
		}, "header.Height()"},
		{hnbe, func(sl *Slice) bool { return sl.HasFieldNamed("BlockEvent", "Height") }, "ev.Height"},
	} {
		nHas := 0
		for _, b := range fd.f.Blocks {
			for _, ins := range b.Instrs {
				g, ok := ins.(*ssa.Call)
				if !ok {
					continue
				}
				o := calleeObj(&g.Call)
				if o == nil || recvOfObj(o) != "Store" || pkgPathOf(o) != modPath+"/store" {
					continue
				}
				switch o.Name() {
				case "PutODSQ4", "PutODS":
				case "HasByHeight":
					nHas++
					a := callOperandsNoRecv(g)
					c.Ob("R15.1", "dedup gate@"+fnName(fd.f), fd.height(backSlice(a[2], SliceOpt{CallArgs: true})), p.Pos(g.Pos()),
						"the already-stored shortcut asks the store about "+fd.what+" (the height the square must be stored under)")
				default:
					c.Ob("R15.1", "store."+o.Name()+"@"+fnName(fd.f), false, p.Pos(g.Pos()),
						"ingest paths use only HasByHeight/PutODS/PutODSQ4: presence of the same data hash under another height does not mean this height is stored")
				}
			}
		}
		if fd.f == hnbe {
			// in full.SharesAvailable the shortcut is an optimisation; in the listener it is the dedup gate
			c.Ob("R15.1", "dedup gate present@"+fnName(fd.f), nHas == 1, p.Pos(fd.f.Pos()), "exactly one height-keyed already-stored shortcut")
		}
	}
	// ---- R15.2
	isStoreEDSErr := func(g *ssa.Call, _ int) GateKind {
		if g.Call.StaticCallee() == storeEDS {
			return GateErr
		}
		return NotGate
	}
	bcast := blocksWhere(hnsb, func(ins ssa.Instruction) bool {
		g, ok := ins.(*ssa.Call)
		if !ok {
			return false
		}
		if g.Call.IsInvoke() && g.Call.Method.Name() == "Broadcast" {
			return true
		}
		if f := fieldOfAddr(g.Call.Value); f != nil && (f.Name() == "hashBroadcaster" || f.Name() == "headerBroadcaster") {
			return true
		}
		return false
	})
	c.Floor("R15.2", "broadcast sites in handleNewSignedBlock", len(bcast), 2)
	for bb := range bcast {
		res := gateWalk(p, hnsb, map[*ssa.BasicBlock]bool{bb: true}, callGates(isStoreEDSErr), nil)
		what := "broadcast"
		for _, ins := range bb.Instrs {
			if g, ok := ins.(*ssa.Call); ok {
				if g.Call.IsInvoke() && g.Call.Method.Name() == "Broadcast" {
					what = "headerBroadcaster.Broadcast"
				} else if f := fieldOfAddr(g.Call.Value); f != nil && f.Name() == "hashBroadcaster" {
					what = "hashBroadcaster"
				}
			}
		}
		c.Ob("R15.2", what+" after store", !res.Reached, p.Pos(blockPos(bb)),
			"the broadcast is reachable only across storeEDS's success edge (nothing is announced that is not stored)", res.Witness...)
	}
	// after the success edge every return is a success; on the failure edge none is
	for _, fd := range []struct {
		f      *ssa.Function
		callee *ssa.Function
	}{{hnsb, storeEDS}, {hnbe, hnsb}} {
		okS, failS := errEdges(fd.f, fd.callee)
		c.Ob("R15.2", "error test of "+fd.callee.Name()+"@"+fnName(fd.f), len(okS) > 0 && len(failS) > 0, p.Pos(fd.f.Pos()), "the error of "+fd.callee.Name()+" is tested")
		ei := errResultIndex(fd.f)
		var errRets, okRets = map[*ssa.BasicBlock]bool{}, map[*ssa.BasicBlock]bool{}
		for _, r := range returnsOf(fd.f) {
			if cls, _ := classifyReturn(r, ei); cls == retErr || cls == retDelegate {
				errRets[r.Block()] = true
			} else if cls == retNil {
				okRets[r.Block()] = true
			} else {
				errRets[r.Block()] = true
				okRets[r.Block()] = true
			}
		}
		for _, s := range okS {
			res := gateWalk(p, fd.f, minusBlocks(errRets, okRets), nil, s)
			c.Ob("R15.2", "stored ingest reports success@"+fnName(fd.f), !res.Reached, p.Pos(blockPos(s)), "no error return after "+fd.callee.Name()+" succeeded", res.Witness...)
		}
		for _, s := range failS {
			res := gateWalk(p, fd.f, okRets, nil, s)
			c.Ob("R15.2", "failed ingest reported@"+fnName(fd.f), !res.Reached, p.Pos(blockPos(s)), "no success return after "+fd.callee.Name()+" failed", res.Witness...)
			if fd.f == hnsb {
				res := gateWalk(p, fd.f, bcast, nil, s)
				c.Ob("R15.2", "failed ingest not announced", !res.Reached, p.Pos(blockPos(s)), "no broadcast after storeEDS failed", res.Witness...)
			}
		}
	}
	// exchange: constructed headers are returned only across storeEDS success
	nEx := 0
	for _, f := range p.FuncsOfPkg("core") {
		if recvName(f) != "Exchange" || f.Parent() != nil {
			continue
		}
		hasStore := false
		for _, b := range f.Blocks {
			for _, ins := range b.Instrs {
				if g, ok := ins.(*ssa.Call); ok && g.Call.StaticCallee() == storeEDS {
					hasStore = true
				}
			}
		}
		if !hasStore {
			continue
		}
		nEx++
		targets := map[*ssa.BasicBlock]bool{}
		for _, r := range successReturns(f) {
			if g, _ := resolveCallThroughLocals(r.Results[0]); g != nil && isConstructCall(g) {
				targets[r.Block()] = true
			}
		}
		c.Ob("R15.2", "constructed header returned@"+fnName(f), len(targets) > 0, p.Pos(f.Pos()), "the function returns the header it constructed")
		res := gateWalk(p, f, targets, callGates(isStoreEDSErr), nil)
		c.Ob("R15.2", "header returned only after store@"+fnName(f), !res.Reached, p.Pos(f.Pos()), "a header built from a consensus block is handed on only after its square was stored", res.Witness...)
	}
	c.Floor("R15.2", "exchange functions that store", nEx, 2)
	// ---- R15.3
	archCut := func(b *ssa.BasicBlock, ifi *ssa.If) (bool, bool) {
		a := stripNot(ifi.Cond)
		isArch := false
		if pr, ok := a.Base.(*ssa.Parameter); ok && pr.Name() == "archival" {
			isArch = true
		}
		if f := fieldOfAddr(a.Base); f != nil && f.Name() == "archival" {
			isArch = true
		}
		if !isArch {
			return false, false
		}
		// cut the side on which archival is true
		return !a.Neg, a.Neg
	}
	for _, f := range []*ssa.Function{storeEDS, avail} {
		q4 := blocksWhere(f, func(ins ssa.Instruction) bool {
			g, ok := ins.(*ssa.Call)
			if !ok || !isPut(g) || calleeObj(&g.Call).Name() != "PutODSQ4" {
				return false
			}
			e, _ := resolveCallThroughLocals(callOperandsNoRecv(g)[4])
			return !(e != nil && calleeObj(&e.Call) != nil && calleeObj(&e.Call).Name() == "EmptyEDS")
		})
		ods := blocksWhere(f, func(ins ssa.Instruction) bool {
			g, ok := ins.(*ssa.Call)
			return ok && isPut(g) && calleeObj(&g.Call).Name() == "PutODS"
		})
		all := blocksWhere(f, func(ins ssa.Instruction) bool {
			g, ok := ins.(*ssa.Call)
			return ok && isPut(g)
		})
		c.Ob("R15.3", "both layouts present@"+fnName(f), len(q4) == 1 && len(ods) == 1, p.Pos(f.Pos()), "one PutODSQ4 (inside the window) and one PutODS (archival, outside)")
		r1 := gateWalk(p, f, q4, callGates(isWithin), nil)
		c.Ob("R15.3", "PutODSQ4 only inside the window@"+fnName(f), !r1.Reached, p.Pos(f.Pos()), "a square with its parity quadrant is stored only on the IsWithinWindow side", r1.Witness...)
		r2 := gateWalk(p, f, ods, callGates(isNotWithin), nil)
		c.Ob("R15.3", "PutODS only outside the window@"+fnName(f), !r2.Reached, p.Pos(f.Pos()), "a square without parity is stored only on the !IsWithinWindow side", r2.Witness...)
		r3 := gateWalk(p, f, all, orCuts(archCut, callGates(isWithin)), nil)
		c.Ob("R15.3", "pruned node stores nothing outside the window@"+fnName(f), !r3.Reached, p.Pos(f.Pos()), "with archival=false and the block outside the window no Put* is reachable", r3.Witness...)
		// window operands
		for _, b := range f.Blocks {
			for _, ins := range b.Instrs {
				g, ok := ins.(*ssa.Call)
				if !ok || calleeObj(&g.Call) == nil || calleeObj(&g.Call).Name() != "IsWithinWindow" {
					continue
				}
				tc, _ := resolveCallThroughLocals(g.Call.Args[0])
				tOK := tc != nil && calleeObj(&tc.Call) != nil && calleeObj(&tc.Call).Name() == "Time" && backSlice(tc.Call.Args[0], SliceOpt{}).Vals[headerParamOf(f)]
				c.Ob("R15.3", "window test on the header's time@"+fnName(f), tOK, p.Pos(g.Pos()), "IsWithinWindow is asked about Time() of the header being stored")
			}
		}
	}
	// the listener's historic drop mirrors storeEDS
	proc := blocksWhere(hnbe, func(ins ssa.Instruction) bool {
		g, ok := ins.(*ssa.Call)
		return ok && g.Call.StaticCallee() == hnsb
	})
	r4 := gateWalk(p, hnbe, proc, orCuts(archCut, callGates(isWithin)), nil)
	c.Ob("R15.3", "listener drops historic blocks like storeEDS", len(proc) == 1 && !r4.Reached, p.Pos(hnbe.Pos()), "with archival=false and the block outside the window the block is not processed (agrees with storeEDS)", r4.Witness...)
	for _, b := range hnbe.Blocks {
		for _, ins := range b.Instrs {
			g, ok := ins.(*ssa.Call)
			if !ok || calleeObj(&g.Call) == nil || calleeObj(&g.Call).Name() != "IsWithinWindow" {
				continue
			}
			ts := backSlice(g.Call.Args[0], SliceOpt{})
			wf := fieldOfAddr(g.Call.Args[1])
			c.Ob("R15.3", "listener window operands", ts.HasFieldNamed("Header", "Time") && wf != nil && wf.Name() == "availabilityWindow", p.Pos(g.Pos()),
				"the drop asks about the fetched block's header time and the listener's availabilityWindow (the values storeEDS will see)")
		}
	}
	// ---- R15.4
	var getEDS *ssa.Call
	for _, b := range avail.Blocks {
		for _, ins := range b.Instrs {
			if g, ok := ins.(*ssa.Call); ok && g.Call.IsInvoke() && g.Call.Method.Name() == "GetEDS" {
				getEDS = g
			}
		}
	}
	if getEDS == nil {
		c.Unresolved("R15.4", "GetEDS call not found in full.SharesAvailable")
	} else {
		okS, failS := errEdgesOfCall(avail, getEDS)
		c.Ob("R15.4", "GetEDS error tested", len(okS) > 0 && len(failS) > 0, p.Pos(getEDS.Pos()), "the getter's error is tested")
		puts := blocksWhere(avail, func(ins ssa.Instruction) bool {
			g, ok := ins.(*ssa.Call)
			return ok && isPut(g)
		})
		succ := blocksOfReturns(successReturns(avail))
		sawNotAvail, sawSelf := false, false
		for _, s := range failS {
			r := gateWalk(p, avail, puts, nil, s)
			c.Ob("R15.4", "failed fetch stores nothing", !r.Reached, p.Pos(blockPos(s)), "no Put* is reachable after GetEDS failed", r.Witness...)
			r = gateWalk(p, avail, succ, nil, s)
			c.Ob("R15.4", "failed fetch is reported", !r.Reached, p.Pos(blockPos(s)), "no success return after GetEDS failed", r.Witness...)
			// returns on that side
			for _, ret := range returnsOf(avail) {
				if !s.Dominates(ret.Block()) {
					continue
				}
				v := ret.Results[0]
				if g, idx := resolveCallThroughLocals(v); g == getEDS && idx == 1 {
					sawSelf = true
					// is it the cancellation side?
				}
				if u, ok := v.(*ssa.UnOp); ok {
					if gl, ok := u.X.(*ssa.Global); ok && gl.Name() == "ErrNotAvailable" {
						sawNotAvail = true
						// gated by errors.Is(err, ErrNotFound) / DeadlineExceeded
						r := gateWalk(p, avail, map[*ssa.BasicBlock]bool{ret.Block(): true}, callGates(func(g *ssa.Call, _ int) GateKind {
							if o := calleeObj(&g.Call); o != nil && pkgPathOf(o) == "errors" && o.Name() == "Is" {
								sl := backSlice(g.Call.Args[1], SliceOpt{})
								if sl.Has(func(x ssa.Value) bool {
									gl, ok := x.(*ssa.Global)
									return ok && (gl.Name() == "ErrNotFound" || gl.Name() == "DeadlineExceeded")
								}) {
									return GateTrue
								}
							}
							return NotGate
						}), s)
						c.Ob("R15.4", "ErrNotAvailable only for not-found/deadline", !r.Reached, p.Pos(ret.Pos()), "ErrNotAvailable is returned only behind errors.Is(err, ErrNotFound) or errors.Is(err, DeadlineExceeded)", r.Witness...)
					}
				}
			}
		}
		c.Ob("R15.4", "ErrNotAvailable mapping present", sawNotAvail, p.Pos(getEDS.Pos()), "not-found/deadline are mapped to share.ErrNotAvailable")
		c.Ob("R15.4", "getter error passed on unchanged", sawSelf, p.Pos(getEDS.Pos()), "cancellation and byzantine errors are returned as the getter produced them")
		// outside-window: pruned returns ErrOutsideSamplingWindow, i.e. not success
		r := gateWalk(p, avail, succ, orCuts(archCut, callGates(isWithin)), nil)
		c.Ob("R15.4", "pruned outside the window is not reported available", !r.Reached, p.Pos(avail.Pos()), "with archival=false and outside the window no success return is reachable", r.Witness...)
	}
	// ---- R15.5
	okAll, n := true, 0
	for _, r := range returnsOf(storeEDS) {
		// returns reachable from a Put block
		reach := false
		for _, b := range storeEDS.Blocks {
			for _, ins := range b.Instrs {
				if g, ok := ins.(*ssa.Call); ok && isPut(g) && (b == r.Block() || gateWalk(p, storeEDS, map[*ssa.BasicBlock]bool{r.Block(): true}, nil, b).Reached) {
					reach = true
				}
			}
		}
		if !reach {
			continue
		}
		n++
	}
	// from the failure edge of each Put no success return is reachable (the success side may return
	// the Put's nil error or a literal nil)
	succPut := blocksOfReturns(successReturns(storeEDS))
	for _, b := range storeEDS.Blocks {
		for _, ins := range b.Instrs {
			g, ok := ins.(*ssa.Call)
			if !ok || !isPut(g) {
				continue
			}
			// success returns that simply hand back this Put's own error value are the Put's verdict
			tg := map[*ssa.BasicBlock]bool{}
			for _, r := range returnsOf(storeEDS) {
				if !succPut[r.Block()] {
					continue
				}
				if k, isK := r.Results[0].(*ssa.Const); isK && k.IsNil() {
					tg[r.Block()] = true
				}
			}
			_, failS := errEdgesOfCall(storeEDS, g)
			if len(failS) == 0 {
				// the error may be tested after a merge (err is a phi of both Puts)
				for _, bb := range storeEDS.Blocks {
					ifi, ok := bb.Instrs[len(bb.Instrs)-1].(*ssa.If)
					if !ok {
						continue
					}
					if x, eq, ok := nilTest(ifi.Cond); ok && isErrorType(x.Type()) && backSlice(x, SliceOpt{}).Vals[g] {
						if eq {
							failS = append(failS, bb.Succs[1])
						} else {
							failS = append(failS, bb.Succs[0])
						}
					}
				}
			}
			if len(failS) == 0 {
				// no test of the error: then every return reachable from the Put must return its error value itself
				for _, r := range returnsOf(storeEDS) {
					if !backSlice(r.Results[0], SliceOpt{}).Vals[g] && (b == r.Block() || gateWalk(p, storeEDS, map[*ssa.BasicBlock]bool{r.Block(): true}, nil, b).Reached) {
						okAll = false
					}
				}
				continue
			}
			for _, s := range failS {
				if gateWalk(p, storeEDS, tg, nil, s).Reached {
					okAll = false
				}
				for _, r := range returnsOf(storeEDS) {
					if s.Dominates(r.Block()) && !backSlice(r.Results[0], SliceOpt{CallArgs: true}).Vals[g] {
						okAll = false
					}
				}
			}
		}
	}
	c.Ob("R15.5", "storeEDS returns the Put error", okAll && n > 0, p.Pos(storeEDS.Pos()), "every return after a Put* returns that Put*'s error (a failed store is not reported as stored)")
	c15Window(c, "R15.3")
}

func recvOfObj(o *types.Func) string {
	sig, ok := o.Type().(*types.Signature)
	if !ok || sig.Recv() == nil {
		return ""
	}
	if n := derefNamed(sig.Recv().Type()); n != nil {
		return n.Obj().Name()
	}
	return ""
}

// callOperandsNoRecv returns the call's operands with index 0 = receiver
// (static method calls carry the receiver in Args[0]; invoke calls in Value).
func callOperandsNoRecv(g *ssa.Call) []ssa.Value {
	if g.Call.IsInvoke() {
		return append([]ssa.Value{g.Call.Value}, g.Call.Args...)
	}
	return g.Call.Args
}

func isConstructCall(g *ssa.Call) bool {
	if f := fieldOfAddr(g.Call.Value); f != nil && f.Name() == "construct" {
		return true
	}
	if o := calleeObj(&g.Call); o != nil && o.Name() == "MakeExtendedHeader" {
		return true
	}
	return false
}

// resolveCallThroughLocals resolves v to the call producing it, looking through
// Extract, and through single-store local Allocs (variables captured by a defer).
func resolveCallThroughLocals(v ssa.Value) (*ssa.Call, int) {
	for depth := 0; depth < 6; depth++ {
		if g, idx := resolveCall(v); g != nil {
			return g, idx
		}
		u, ok := v.(*ssa.UnOp)
		if !ok {
			return nil, 0
		}
		al, ok := u.X.(*ssa.Alloc)
		if !ok {
			return nil, 0
		}
		var st *ssa.Store
		cnt := 0
		for _, r := range *al.Referrers() {
			if s, ok := r.(*ssa.Store); ok && s.Addr == ssa.Value(al) {
				// the closest store that dominates the load
				if s.Block().Dominates(u.Block()) {
					if st == nil || st.Block().Dominates(s.Block()) {
						st = s
					}
				}
				cnt++
			}
		}
		if st == nil {
			return nil, 0
		}
		v = st.Val
	}
	return nil, 0
}

func sameValueThroughLocals(a, b ssa.Value) bool {
	if a == b {
		return true
	}
	ga, ia := resolveCallThroughLocals(a)
	gb, ib := resolveCallThroughLocals(b)
	return ga != nil && ga == gb && ia == ib
}

func headerParamOf(f *ssa.Function) *ssa.Parameter {
	for _, pr := range f.Params {
		if n := derefNamed(pr.Type()); n != nil && n.Obj().Name() == "ExtendedHeader" {
			return pr
		}
	}
	return nil
}

func minusBlocks(a, b map[*ssa.BasicBlock]bool) map[*ssa.BasicBlock]bool {
	out := map[*ssa.BasicBlock]bool{}
	for k := range a {
		if !b[k] {
			out[k] = true
		}
	}
	return out
}

// errEdges: successor blocks on the err==nil / err!=nil sides of tests of the
// error returned by calls to callee in f.
func errEdges(f *ssa.Function, callee *ssa.Function) (okS, failS []*ssa.BasicBlock) {
	for _, b := range f.Blocks {
		for _, ins := range b.Instrs {
			if g, ok := ins.(*ssa.Call); ok && g.Call.StaticCallee() == callee {
				o, fl := errEdgesOfCall(f, g)
				okS = append(okS, o...)
				failS = append(failS, fl...)
			}
		}
	}
	return
}

func errEdgesOfCall(f *ssa.Function, call *ssa.Call) (okS, failS []*ssa.BasicBlock) {
	for _, b := range f.Blocks {
		ifi, ok := b.Instrs[len(b.Instrs)-1].(*ssa.If)
		if !ok {
			continue
		}
		x, eq, ok := nilTest(ifi.Cond)
		if !ok {
			continue
		}
		g, _ := resolveCallThroughLocals(x)
		if g != call || !call.Block().Dominates(b) {
			continue
		}
		if eq {
			okS = append(okS, b.Succs[0])
			failS = append(failS, b.Succs[1])
		} else {
			okS = append(okS, b.Succs[1])
			failS = append(failS, b.Succs[0])
		}
	}
	return
}
