package main

import (
	"fmt"
	"sort"
	"strings"

	"golang.org/x/tools/go/ssa"
)

// R8.7 the two-layer cache covers both layers: each DoubleCache method that
// delegates under its own name (Has, Get, Remove, EnableMetrics) calls that method
// on both the first and the second layer; a removal that reaches only one layer
// leaves a removed block being served (and its descriptors open) from the other.
//
// R8.8 removal is synchronous: AccessorCache.Remove looks the accessor up and calls
// its close() - which waits for the readers' references - before dropping it from
// the LRU; dropping it only (leaving the close to the eviction callback's
// goroutine) lets RemoveODSQ4 delete and a re-put rewrite files under a live reader.
func c08CacheLayers(c *Check) {
	p := c.P
	c.Rule("R8.7", "the two-layer cache delegates same-named operations to both layers")
	c.Rule("R8.8", "cache removal closes the accessor synchronously (waits for readers) before dropping it")
	dc := p.Named("store/cache", "DoubleCache")
	if dc == nil {
		c.Unresolved("R8.7", "cache.DoubleCache not found")
		return
	}
	want := map[string]bool{"Has": true, "Get": true, "Remove": true, "EnableMetrics": true}
	n := 0
	for name := range want {
		fn := p.Func("store/cache", "DoubleCache", name)
		if fn == nil {
			c.Ob("R8.7", "DoubleCache."+name, false, "-", "method not found")
			continue
		}
		c.SawFunc(fn)
		layers := map[string]int{}
		for _, f := range append([]*ssa.Function{fn}, Closures(fn)...) {
			for _, b := range f.Blocks {
				for _, ins := range b.Instrs {
					ci, ok := ins.(ssa.CallInstruction)
					if !ok || !ci.Common().IsInvoke() || ci.Common().Method.Name() != name {
						continue
					}
					if fld := fieldOfAddr(ci.Common().Value); fld != nil {
						layers[fld.Name()]++
					}
				}
			}
		}
		n++
		var ls []string
		for k, v := range layers {
			ls = append(ls, k+"x"+string(rune('0'+v)))
		}
		sort.Strings(ls)
		c.Ob("R8.7", "DoubleCache."+name, layers["first"] == 1 && layers["second"] == 1 && len(layers) == 2, p.Pos(fn.Pos()),
			"calls "+name+" exactly once on each of the two layers (found: "+strings.Join(ls, ", ")+")")
	}
	c.Floor("R8.7", "delegating methods of DoubleCache", n, 4)
	// R8.8
	rm := p.Func("store/cache", "AccessorCache", "Remove")
	if rm == nil {
		c.Unresolved("R8.8", "AccessorCache.Remove not found")
		return
	}
	c.SawFunc(rm)
	var lruRemove, lookup, closeCall *ssa.Call
	for _, b := range rm.Blocks {
		for _, ins := range b.Instrs {
			g, ok := ins.(*ssa.Call)
			if !ok {
				continue
			}
			o := calleeObj(&g.Call)
			if o == nil {
				continue
			}
			switch {
			case o.Name() == "Remove" && fieldOfAddr(callRecv(g)) != nil && fieldOfAddr(callRecv(g)).Name() == "cache":
				lruRemove = g
			case o.Name() == "Get" && fieldOfAddr(callRecv(g)) != nil && fieldOfAddr(callRecv(g)).Name() == "cache":
				lookup = g
			case o.Name() == "close" && recvOfObj(o) == "accessor":
				closeCall = g
			}
		}
	}
	if lookup == nil {
		// the LRU lookup may live in a helper of the cache (lookup-style): a call to a first-party function that does the cache.Get
		for _, b := range rm.Blocks {
			for _, ins := range b.Instrs {
				g, ok := ins.(*ssa.Call)
				if !ok || g.Call.StaticCallee() == nil || !p.FirstParty(g.Call.StaticCallee()) {
					continue
				}
				h := g.Call.StaticCallee()
				for _, hb := range h.Blocks {
					for _, hi := range hb.Instrs {
						if k, ok := hi.(*ssa.Call); ok {
							if o := calleeObj(&k.Call); o != nil && o.Name() == "Get" && fieldOfAddr(callRecv(k)) != nil && fieldOfAddr(callRecv(k)).Name() == "cache" {
								lookup = g
							}
						}
					}
				}
			}
		}
	}
	okShape := lruRemove != nil && lookup != nil && closeCall != nil
	if okShape {
		// the accessor closed is the one looked up, for the method's own height
		okShape = backSlice(callRecv(closeCall), SliceOpt{}).Vals[lookup] && backSlice(lookup.Call.Args[len(lookup.Call.Args)-1], SliceOpt{}).Vals[rm.Params[1]]
	}
	c.Ob("R8.8", "Remove closes the looked-up accessor", okShape, p.Pos(rm.Pos()), "Remove looks the height up in the LRU and calls close() on that accessor (close waits for readers)")
	if okShape {
		// the LRU removal is reachable only across close()'s success edge
		cut := callGates(func(k *ssa.Call, _ int) GateKind {
			if k == closeCall {
				return GateErr
			}
			return NotGate
		})
		res := gateWalk(p, rm, map[*ssa.BasicBlock]bool{lruRemove.Block(): true}, cut, nil)
		c.Ob("R8.8", "LRU removal only after the synchronous close", !res.Reached, p.Pos(lruRemove.Pos()), "the entry is dropped from the LRU only after close() returned without error", res.Witness...)
	}
}

// callRecv: the receiver operand of a method call (invoke or static).
func callRecv(g *ssa.Call) ssa.Value {
	if g.Call.IsInvoke() {
		return g.Call.Value
	}
	if len(g.Call.Args) > 0 {
		return g.Call.Args[0]
	}
	return nil
}

// c08RemovalEvicts (R8.9): every successful removal of a height's ODS evicts the
// height from the store's cache first: an accessor left in a cache layer keeps a
// removed block (and its descriptors) being served. (R8.8b) the synchronous close
// in AccessorCache.Remove is made with no cache stripe lock held: it waits for the
// readers, and a reader that needs GetOrLoad on a height of the same stripe before
// it closes would wait for the remover in turn.
func c08RemovalEvicts(c *Check, la *lockAnalysis) {
	p := c.P
	defer c08RefBeforeVisible(c)
	c.Rule("R8.9", "every successful ODS removal passes the cache eviction of that height")
	rm := p.Func("store", "Store", "removeODS")
	if rm == nil {
		c.Unresolved("R8.9", "Store.removeODS not found")
		return
	}
	c.SawFunc(rm)
	evict := blocksWhere(rm, func(ins ssa.Instruction) bool {
		g, ok := ins.(*ssa.Call)
		if !ok || !g.Call.IsInvoke() || g.Call.Method.Name() != "Remove" {
			return false
		}
		f := fieldOfAddr(g.Call.Value)
		return f != nil && f.Name() == "cache" && len(g.Call.Args) == 1 && g.Call.Args[0] == ssa.Value(rm.Params[1])
	})
	succ := blocksOfReturns(successReturns(rm))
	res := gateWalkOpts(p, rm, minusBarrier(succ, evict), nil, nil, evict)
	c.Ob("R8.9", "removeODS evicts before reporting success", len(evict) > 0 && !res.Reached, p.Pos(rm.Pos()),
		"every success return of removeODS passes s.cache.Remove(height) for the height being removed (empty blocks are loaded into the serving cache like any other)", res.Witness...)
	// R8.8b
	arm := p.Func("store/cache", "AccessorCache", "Remove")
	if arm == nil {
		return
	}
	for _, b := range arm.Blocks {
		for _, ins := range b.Instrs {
			g, ok := ins.(*ssa.Call)
			if !ok {
				continue
			}
			o := calleeObj(&g.Call)
			if o == nil || o.Name() != "close" || recvOfObj(o) != "accessor" {
				continue
			}
			held := la.mayBefore[ins]
			c.Ob("R8.8", "synchronous close outside the cache stripe lock", len(held) == 0, p.Pos(g.Pos()),
				fmt.Sprintf("accessor.close() waits for the readers and is called with no lock of the cache held (held: %v)", held.keys()))
		}
	}
}

// c08RefBeforeVisible (R8.3b): in AccessorCache.GetOrLoad the caller's reference on a
// freshly loaded accessor is taken BEFORE the accessor is added to the LRU. Once
// it is in the LRU a concurrent Add of another height may evict and close it; with
// the reference taken afterwards the loader itself gets "accessor closed" for a
// block that is stored.
func c08RefBeforeVisible(c *Check) {
	p := c.P
	fn := p.Func("store/cache", "AccessorCache", "GetOrLoad")
	if fn == nil {
		c.Unresolved("R8.3", "AccessorCache.GetOrLoad not found")
		return
	}
	var add *ssa.Call
	for _, b := range fn.Blocks {
		for _, ins := range b.Instrs {
			g, ok := ins.(*ssa.Call)
			if !ok {
				continue
			}
			if o := calleeObj(&g.Call); o != nil && o.Name() == "Add" {
				if f := fieldOfAddr(callRecv(g)); f != nil && f.Name() == "cache" {
					add = g
				}
			}
		}
	}
	if add == nil {
		// the miss path may have been extracted into a helper (loadAndAdd-style): evaluate the ordering there
		for _, b := range fn.Blocks {
			for _, ins := range b.Instrs {
				g, ok := ins.(*ssa.Call)
				if !ok || g.Call.StaticCallee() == nil || !p.FirstParty(g.Call.StaticCallee()) || g.Call.StaticCallee().Blocks == nil {
					continue
				}
				h := g.Call.StaticCallee()
				for _, hb := range h.Blocks {
					for _, hi := range hb.Instrs {
						if k, ok := hi.(*ssa.Call); ok {
							if o := calleeObj(&k.Call); o != nil && o.Name() == "Add" {
								if f := fieldOfAddr(callRecv(k)); f != nil && f.Name() == "cache" {
									add, fn = k, h
								}
							}
						}
					}
				}
			}
		}
	}
	if add == nil {
		c.Ob("R8.3", "GetOrLoad adds the loaded accessor", false, p.Pos(fn.Pos()), "GetOrLoad (or a helper it calls) adds the loaded accessor to the LRU")
		return
	}
	added := add.Call.Args[len(add.Call.Args)-1]
	cut := callGates(func(k *ssa.Call, _ int) GateKind {
		if k.Call.StaticCallee() != nil && k.Call.StaticCallee().Name() == "newRefCloser" && len(k.Call.Args) == 1 && sameValueThroughLocals(k.Call.Args[0], added) {
			return GateErr
		}
		return NotGate
	})
	res := gateWalk(p, fn, map[*ssa.BasicBlock]bool{add.Block(): true}, cut, nil)
	c.Ob("R8.3", "reference taken before the accessor is visible in the LRU", !res.Reached, p.Pos(add.Pos()),
		"cache.Add(height, ac) is reachable only across the success edge of newRefCloser(ac) for that accessor", res.Witness...)
}
