package main

import (
	"go/token"

	"golang.org/x/tools/go/ssa"
)

// c11ProofList: retrieve accumulates one NMT proof per walked row and returns the
// list together with the blob that matched (GetProof hands it out, Included compares
// it with the client's proof). The list must cover exactly the rows of the blob in
// progress, which the code maintains by three kinds of assignments to the list:
//
//	(a) append of the current row's proof, once per row (in the row loop's body,
//	    outside the per-blob loop);
//	(b) after a parsed blob did not match and the parser was already collecting when
//	    this row started (the blob began in an earlier row), the list is cut back to
//	    its last element - otherwise the next blob's proof carries rows it does not
//	    occupy;
//	(c) at a row end with no blob in progress the list is cleared.
//
// Each kind must be present, (b) only behind verify's false edge, (c) only behind
// isEmpty() == true.
func c11ProofList(c *Check, rule string) {
	p := c.P
	if rule == "R11.8" {
		defer c11Length(c, "R11.9")
	}
	c.Rule(rule, "the proof list returned with a blob is maintained per row: appended once per row, cut back after a non-matching multi-row blob, cleared at an idle row end")
	ret := p.Func("blob", "Service", "retrieve")
	verify := p.Func("blob", "parser", "verify")
	isEmpty := p.Func("blob", "parser", "isEmpty")
	if ret == nil || verify == nil || isEmpty == nil {
		c.Unresolved(rule, "retrieve / parser.verify / parser.isEmpty not found")
		return
	}
	c.SawFunc(ret)
	// the list: the local whose address is returned as the *Proof result
	var list *ssa.Alloc
	for _, r := range returnsOf(ret) {
		if len(r.Results) >= 2 {
			if al, ok := r.Results[1].(*ssa.Alloc); ok {
				list = al
			}
		}
	}
	if list == nil {
		c.Ob(rule, "proof list", false, p.Pos(ret.Pos()), "retrieve returns the address of a local proof list")
		return
	}
	isLoadOfList := func(v ssa.Value) bool {
		u, ok := v.(*ssa.UnOp)
		return ok && u.Op == token.MUL && u.X == ssa.Value(list)
	}
	var appends, trims, clears []*ssa.Store
	for _, ref := range *list.Referrers() {
		st, ok := ref.(*ssa.Store)
		if !ok || st.Addr != ssa.Value(list) {
			continue
		}
		switch v := st.Val.(type) {
		case *ssa.Const:
			if v.IsNil() {
				clears = append(clears, st)
			}
		case *ssa.Slice:
			// a suffix of the list, e.g. proofs[len(proofs)-1:]
			if isLoadOfList(v.X) && v.Low != nil {
				trims = append(trims, st)
			} else if sl := backSlice(st.Val, SliceOpt{CallArgs: true}); sl.HasFieldNamed("RowNamespaceData", "Proof") && !sl.Has(isLoadOfList) {
				// a list rebuilt from the current row's proof alone (slice literal)
				trims = append(trims, st)
			}
		case *ssa.Call:
			if bi, ok := v.Call.Value.(*ssa.Builtin); ok && bi.Name() == "append" && isLoadOfList(v.Call.Args[0]) {
				if backSlice(v.Call.Args[1], SliceOpt{CallArgs: true}).HasFieldNamed("RowNamespaceData", "Proof") {
					appends = append(appends, st)
				}
			}
		default:
			// a list rebuilt from the current row's proof alone counts as a cut as well
			sl := backSlice(st.Val, SliceOpt{CallArgs: true})
			if sl.HasFieldNamed("RowNamespaceData", "Proof") && !sl.Has(isLoadOfList) {
				trims = append(trims, st)
			}
		}
	}
	// (a)
	okA := len(appends) == 1
	if okA {
		b := appends[0].Block()
		// in a range-loop body, and not inside the inner per-blob loop (no back edge to itself without leaving through the row loop header)
		okA = b.Comment == "rangeindex.body" || b.Comment == "rangeiter.body" || dominatedByComment(b, "rangeindex.body")
	}
	c.Ob(rule, "one proof appended per row", okA, p.Pos(ret.Pos()), "the current row's proof is appended exactly once, in the row loop's body")
	// (b)
	okB := len(trims) >= 1
	var wit []string
	if okB {
		cut := callGates(func(k *ssa.Call, _ int) GateKind {
			if k.Call.StaticCallee() == verify {
				return GateFalse
			}
			return NotGate
		})
		for _, t := range trims {
			res := gateWalk(p, ret, map[*ssa.BasicBlock]bool{t.Block(): true}, cut, nil)
			if res.Reached {
				okB = false
				wit = res.Witness
			}
			// on the !wasEmpty side: the block is control dependent on an isEmpty() result
			dep := false
			for d := t.Block(); d != nil && d.Idom() != nil; d = d.Idom() {
				if ifi, ok := d.Idom().Instrs[len(d.Idom().Instrs)-1].(*ssa.If); ok {
					if g, _ := resolveCall(stripNot(ifi.Cond).Base); g != nil && g.Call.StaticCallee() == isEmpty {
						dep = true
					}
				}
			}
			if !dep {
				okB = false
			}
		}
	}
	c.Ob(rule, "list cut back after a non-matching multi-row blob", okB, p.Pos(ret.Pos()),
		"behind verify(blob) == false and only when the parser was not empty at the start of this round, the list is cut back to a suffix or rebuilt from the current row's proof (proofs of rows the next blob does not occupy are dropped)", wit...)
	// (c)
	okC := len(clears) >= 1
	if okC {
		cut := callGates(func(k *ssa.Call, _ int) GateKind {
			if k.Call.StaticCallee() == isEmpty {
				return GateTrue
			}
			return NotGate
		})
		for _, t := range clears {
			if res := gateWalk(p, ret, map[*ssa.BasicBlock]bool{t.Block(): true}, cut, nil); res.Reached {
				okC = false
			}
		}
	}
	c.Ob(rule, "list cleared at an idle row end", okC, p.Pos(ret.Pos()), "the list is set to nil only behind sharesParser.isEmpty() == true")
}

func dominatedByComment(b *ssa.BasicBlock, comment string) bool {
	for d := b; d != nil; d = d.Idom() {
		if d.Comment == comment {
			return true
		}
	}
	return false
}

// c11Length (R11.9): the number of shares a blob needs is computed in one place and
// from one share: every assignment of parser.length outside reset() is
// SparseSharesNeeded(sequence length, has-signer) where both arguments are read from
// the first share AFTER padding was skipped (the result of skipPadding), the signer
// flag being that share's version. A constant shortcut, or a version read from the
// share in front of the padding, miscounts blobs of share version 1.
func c11Length(c *Check, rule string) {
	p := c.P
	c.Rule(rule, "the share count of a blob is SparseSharesNeeded(sequence length, version flag) of the first share after skipped padding")
	n := 0
	for _, f := range p.FuncsOfPkg("blob") {
		if recvName(rootFunc(f)) != "parser" || f.Name() == "reset" {
			continue
		}
		var skip *ssa.Call
		for _, b := range f.Blocks {
			for _, ins := range b.Instrs {
				if g, ok := ins.(*ssa.Call); ok && g.Call.StaticCallee() != nil && g.Call.StaticCallee().Name() == "skipPadding" {
					skip = g
				}
			}
		}
		for _, b := range f.Blocks {
			for _, ins := range b.Instrs {
				st, ok := ins.(*ssa.Store)
				if !ok {
					continue
				}
				fa, ok := st.Addr.(*ssa.FieldAddr)
				if !ok || fieldOf(fa) == nil || fieldOf(fa).Name() != "length" || ownerName(fa) != "parser" {
					continue
				}
				n++
				c.SawFunc(f)
				g, _ := resolveCall(st.Val)
				okCall := g != nil && calleeObj(&g.Call) != nil && calleeObj(&g.Call).Name() == "SparseSharesNeeded" && len(g.Call.Args) == 2
				c.Ob(rule, "parser.length@"+fnName(f)+": computed by SparseSharesNeeded", okCall, p.Pos(st.Pos()), "parser.length is assigned the result of libshare.SparseSharesNeeded only")
				if !okCall {
					continue
				}
				fromFirstShare := func(v ssa.Value, method string) bool {
					sl := backSlice(v, SliceOpt{CallArgs: true})
					return sl.Has(func(x ssa.Value) bool {
						k, ok := x.(*ssa.Call)
						if !ok || calleeObj(&k.Call) == nil || calleeObj(&k.Call).Name() != method || len(k.Call.Args) == 0 {
							return false
						}
						rs := backSlice(k.Call.Args[0], SliceOpt{})
						return skip != nil && rs.Vals[skip]
					})
				}
				c.Ob(rule, "parser.length@"+fnName(f)+": sequence length of the first share after padding", fromFirstShare(g.Call.Args[0], "SequenceLen"), p.Pos(st.Pos()),
					"the length argument is SequenceLen() of a share taken from skipPadding's result")
				c.Ob(rule, "parser.length@"+fnName(f)+": version of the same share", fromFirstShare(g.Call.Args[1], "Version"), p.Pos(st.Pos()),
					"the has-signer argument derives from Version() of a share taken from skipPadding's result (not of the share in front of the padding)")
			}
		}
	}
	c.Floor(rule, "assignments of parser.length outside reset", n, 1)
}
