package main

// Call-graph reachability over first-party code (E8 / PANIC-REACH support).

import (
	"fmt"
	"go/types"
	"sort"
	"strings"

	"golang.org/x/tools/go/ssa"
)

type reachNode struct {
	fn   *ssa.Function
	prev *reachNode
	site ssa.CallInstruction
	how  string // static | vta | cha | closure | go | defer
}

type ReachOpt struct {
	MaxDepth   int
	SkipFn     func(*ssa.Function) bool // do not enter
	NoCHA      bool                     // never fall back to CHA for unresolved invokes
	IntoAnon   bool                     // treat MakeClosure as a potential call of the closure
	SamePkgs   map[string]bool          // if set, only enter functions of these package paths
	FilterEdge func(site ssa.CallInstruction, callee *ssa.Function) bool
}

// Reach walks from start; visit is called for every call instruction in every
// reached first-party function body (including calls to body-less dependency
// functions, which is where sinks usually are).
func (p *Program) Reach(start []*ssa.Function, opt ReachOpt, visit func(n *reachNode, site ssa.CallInstruction)) map[*ssa.Function]*reachNode {
	seen := map[*ssa.Function]*reachNode{}
	var queue []*reachNode
	depth := map[*reachNode]int{}
	for _, s := range start {
		if s == nil || seen[s] != nil {
			continue
		}
		n := &reachNode{fn: s}
		seen[s] = n
		queue = append(queue, n)
	}
	enter := func(from *reachNode, f *ssa.Function, site ssa.CallInstruction, how string) {
		if f == nil || f.Blocks == nil || seen[f] != nil {
			return
		}
		if !p.FirstParty(f) {
			return
		}
		if opt.SkipFn != nil && opt.SkipFn(f) {
			return
		}
		if opt.SamePkgs != nil {
			r := rootFunc(f)
			pp := ""
			if r.Pkg != nil {
				pp = r.Pkg.Pkg.Path()
			} else if r.Object() != nil && r.Object().Pkg() != nil {
				pp = r.Object().Pkg().Path()
			}
			if !opt.SamePkgs[pp] {
				return
			}
		}
		if p.IsTestPos(rootFunc(f).Pos()) {
			return
		}
		if opt.MaxDepth > 0 && depth[from]+1 > opt.MaxDepth {
			return
		}
		if opt.FilterEdge != nil && site != nil && !opt.FilterEdge(site, f) {
			return
		}
		n := &reachNode{fn: f, prev: from, site: site, how: how}
		depth[n] = depth[from] + 1
		seen[f] = n
		queue = append(queue, n)
	}
	for len(queue) > 0 {
		n := queue[0]
		queue = queue[1:]
		for _, b := range n.fn.Blocks {
			for _, ins := range b.Instrs {
				switch x := ins.(type) {
				case ssa.CallInstruction:
					if visit != nil {
						visit(n, x)
					}
					how := "static"
					if _, isGo := x.(*ssa.Go); isGo {
						how = "go"
					} else if _, isDefer := x.(*ssa.Defer); isDefer {
						how = "defer"
					}
					if f := x.Common().StaticCallee(); f != nil {
						enter(n, f, x, how)
						continue
					}
					cs := p.calleesTagged(x, opt.NoCHA)
					for _, c := range cs {
						enter(n, c.fn, x, c.how)
					}
				case *ssa.MakeClosure:
					if opt.IntoAnon {
						if f, ok := x.Fn.(*ssa.Function); ok {
							enter(n, f, nil, "closure")
						}
					}
				}
			}
		}
	}
	return seen
}

type taggedCallee struct {
	fn  *ssa.Function
	how string
}

func (p *Program) calleesTagged(site ssa.CallInstruction, noCHA bool) []taggedCallee {
	fn := site.Parent()
	var out []taggedCallee
	seen := map[*ssa.Function]bool{}
	if n := p.VTA().Nodes[fn]; n != nil {
		for _, e := range n.Out {
			if e.Site == site && !seen[e.Callee.Func] {
				seen[e.Callee.Func] = true
				out = append(out, taggedCallee{e.Callee.Func, "vta"})
			}
		}
	}
	// CHA fallback only for interface method calls: for calls of plain function
	// values CHA matches every function of the same signature, which is noise.
	if len(out) == 0 && !noCHA && site.Common().IsInvoke() {
		if n := p.CHA().Nodes[fn]; n != nil {
			for _, e := range n.Out {
				if e.Site == site && !seen[e.Callee.Func] {
					seen[e.Callee.Func] = true
					out = append(out, taggedCallee{e.Callee.Func, "cha"})
				}
			}
		}
	}
	sort.Slice(out, func(i, j int) bool { return out[i].fn.String() < out[j].fn.String() })
	return out
}

func (p *Program) pathTo(n *reachNode) []string {
	var rev []string
	for x := n; x != nil; x = x.prev {
		s := fnName(x.fn)
		if x.site != nil {
			s += fmt.Sprintf("  [called %s at %s]", x.how, p.Pos(x.site.Pos()))
		} else if x.how != "" {
			s += "  [" + x.how + "]"
		}
		rev = append(rev, s)
	}
	for i, j := 0, len(rev)-1; i < j; i, j = i+1, j-1 {
		rev[i], rev[j] = rev[j], rev[i]
	}
	return rev
}

func pkgPathOf(o *types.Func) string {
	if o == nil || o.Pkg() == nil {
		return ""
	}
	return o.Pkg().Path()
}

func hasPrefixAny(s string, ps ...string) bool {
	for _, p := range ps {
		if strings.HasPrefix(s, p) {
			return true
		}
	}
	return false
}

// allCallSites enumerates every call instruction in first-party non-test source
// functions for which pred(calleeObj) holds.
func (p *Program) allCallSites(pred func(*types.Func) bool) []ssa.CallInstruction {
	var out []ssa.CallInstruction
	for _, f := range p.SrcFuncs {
		if p.IsTestPos(rootFunc(f).Pos()) || !p.FirstParty(f) {
			continue
		}
		for _, b := range f.Blocks {
			for _, ins := range b.Instrs {
				if c, ok := ins.(ssa.CallInstruction); ok {
					if o := calleeObj(c.Common()); o != nil && pred(o) {
						out = append(out, c)
					}
				}
			}
		}
	}
	sort.Slice(out, func(i, j int) bool { return out[i].Pos() < out[j].Pos() })
	return out
}

// onlyCalledFrom: f is allowed itself, or f is a plain helper (not a goroutine/closure
// entry) all of whose static call sites in first-party code are in functions that are
// allowed or, recursively, only called from allowed functions. Lets "who may do X"
// rules accept a helper extracted from an allowed function.
func (p *Program) onlyCalledFrom(f *ssa.Function, allowed func(*ssa.Function) bool, depth int) bool {
	if allowed(f) {
		return true
	}
	if depth > 3 || f.Parent() != nil {
		return false
	}
	nSites := 0
	for _, g := range p.SrcFuncs {
		if !p.FirstParty(g) || p.IsTestPos(rootFunc(g).Pos()) {
			continue
		}
		for _, b := range g.Blocks {
			for _, ins := range b.Instrs {
				ci, ok := ins.(ssa.CallInstruction)
				if !ok || ci.Common().StaticCallee() != f {
					continue
				}
				// started as a goroutine or deferred: a different execution context
				if _, isGo := ci.(*ssa.Go); isGo {
					return false
				}
				nSites++
				if g.Parent() != nil {
					// called from a closure: only fine if the closure's root is the caller we accept and the closure is not a goroutine body; be conservative
					return false
				}
				if !p.onlyCalledFrom(g, allowed, depth+1) {
					return false
				}
			}
		}
	}
	// a function value taken (method value / passed around) is not tracked: require at least one static site
	return nSites > 0
}

// reachesStatic: from (or a first-party function it calls statically, up to depth) satisfies pred.
func (p *Program) reachesStatic(from *ssa.Function, pred func(*ssa.Function) bool, depth int) bool {
	if from == nil {
		return false
	}
	if pred(from) {
		return true
	}
	if depth <= 0 || !p.FirstParty(from) {
		return false
	}
	for _, b := range from.Blocks {
		for _, ins := range b.Instrs {
			if ci, ok := ins.(ssa.CallInstruction); ok {
				if g := ci.Common().StaticCallee(); g != nil && g != from && p.reachesStatic(g, pred, depth-1) {
					return true
				}
			}
		}
	}
	return false
}
