package main

import (
	"fmt"
	"go/constant"
	"go/types"
	"sort"
	"strings"

	"golang.org/x/tools/go/ssa"
)

func init() {
	register("C06", runC06,
		"Structural necessary conditions of 'getters hand back only verified data'. R6.1 ESCAPE (shrex getter): every location whose address is handed to (*shrex.Client).Get as the response (a local, or an element of a slice captured by the request closure) may reach a return of the getter method only across the success edge of the executeRequest call that pairs the request closure with its verify closure, or after a store of a fresh value to that location on the failure edge (kill). R6.2 (bitswap): Container fields are written only behind id equality and verification (shared with C10 R10.1). R6.3 decoders fully overwrite: every ReadFrom/UnmarshalJSON/UnmarshalBinary with pointer receiver on a shwap container or ID stores the whole receiver, or every field, on every path to a success return (no state of an earlier response survives a retry). R6.4 status mapping: the client's switch over the wire status has a case for every status the server can write, NOT_FOUND maps to shrex.ErrNotFound, executeRequest maps that to shwap.ErrNotFound, and the five store.Getter methods map store.ErrNotFound to shwap.ErrNotFound. R6.5 PANIC-REACH: explicit panics reachable over the call graph (VTA, CHA fallback for interface calls such as the injected Blockstore) from the Getter methods of the network getters and the cascade getter are enumerated with their call path; allow-listed sites carry a reason. R6.6: store.Getter methods close the accessor on every path; the cascade returns a value only on the err==nil edge. Not decided: retry/peer-selection dynamics, deadlines, that a later honest peer is actually tried.",
		"(*shrex.Client).Get writes the decoded response through the pointer it is given even when a later step fails")
	register("C09", runC09,
		"Structural necessary conditions of 'shrex serves what is asked and survives anything'. R9.1 PAIR: in the server's request handler the accessor obtained from the store is closed and the reserved memory is released (same amount value) on every path from the respective success edge. R9.2 registry agreement: the request types created by shrex.registry, the first-party types implementing the request interface, and the keys of peerStreamsPerProtocol are the same set (a missing key silently yields a zero stream limit); protocol names are pairwise distinct. R9.3 status totality: every status constant passed to respondStatus has a case there (its default panics). R9.4: every handler given to SetHandler in Start is the result of RecoveryMiddleware. R9.5: the store is accessed only across requestID.Validate() success, and ResponseSize is computed only across file.Size success. R9.6 validation coverage: for every method of eds.Accessor with an index-bearing parameter (int or SampleCoords) the validation wrapper declares the method itself and reaches the delegate only across a rejecting bounds check that depends on that parameter and on the square size; together with C05 R5.2 (store hands out only wrapped accessors) this is the static form of 'bounds checks live in the accessor wrapper'. R9.7: explicit panics reachable from the stream handler are enumerated (all run under RecoveryMiddleware by R9.4). Not decided: that replies equal the requested data, rate limiting, wedging under load.",
		"libp2p invokes exactly the handler registered with SetStreamHandler")
}

const (
	pkgShrex       = modPath + "/share/shwap/p2p/shrex"
	pkgShrexGetter = modPath + "/share/shwap/p2p/shrex/shrex_getter"
	pkgStore       = modPath + "/store"
)

func runC06(c *Check) {
	c.Rule("R6.1", "shrex getter: decoded responses escape only across verification success or after a kill on the failure edge")
	c.Rule("R6.2", "bitswap: Container written only behind id equality and verification (R10.1)")
	c.Rule("R6.3", "decoders fully overwrite their receiver on every success path")
	c.Rule("R6.4", "status mapping: client covers every server status; not-found is reported as not found")
	c.Rule("R6.5", "explicit panics reachable from getter methods")
	c.Rule("R6.6", "store getter closes accessors; cascade returns values only on success")
	c06Escape(c)
	vs := shwapVerifiers(c, "R6.2")
	blocks := bitswapBlockTypes(c, "R6.2")
	c.Floor("R6.2", "bitswap Block types", len(blocks), 4)
	sub := newCheck(c.Prop, c.Tier, c.P)
	for _, bt := range blocks {
		c10Unmarshal(sub, bt, vs)
	}
	c10Writers(sub, blocks)
	for _, f := range sub.findings {
		c.Ob("R6.2", f.Construct, false, f.Pos, f.Msg, f.Path...)
	}
	if len(sub.findings) == 0 {
		c.Ob("R6.2", "bitswap containers", true, "-", fmt.Sprintf("%d R10.1 obligations evaluated for %d Block types", sub.evals, len(blocks)))
	}
	c06Decoders(c)
	c06Status(c)
	c06Panics(c)
	c06CloseAndCascade(c)
	// the getters' guarantee rests on the shwap verifiers' completeness gates (C02 R2.1/R2.2) and on the atomic bitswap registry (C10 R10.2)
	c.Rule("R6.7", "contracts the getters rest on: namespace-data completeness gates and the bitswap unmarshal registry")
	importRules(c, "R6.7", "C02 R2.1/R2.2 completeness gates", runC02, pickRule("R2.1", "R2.2"), func(s *Check) int { return s.evals })
	importRules(c, "R6.7", "C10 R10.2 registry atomicity", runC10, pickRule("R10.2"), func(s *Check) int { return s.evals })
}

func c06Escape(c *Check) {
	p := c.P
	gt := p.Named("share/shwap/p2p/shrex/shrex_getter", "Getter")
	if gt == nil {
		c.Unresolved("R6.1", "shrex_getter.Getter not found")
		return
	}
	exec := p.Func("share/shwap/p2p/shrex/shrex_getter", "Getter", "executeRequest")
	if exec == nil {
		c.Unresolved("R6.1", "executeRequest not found")
		return
	}
	n := 0
	for _, f := range p.FuncsOfPkg("share/shwap/p2p/shrex/shrex_getter") {
		for _, b := range f.Blocks {
			for _, ins := range b.Instrs {
				call, ok := ins.(*ssa.Call)
				if !ok || call.Call.StaticCallee() != exec {
					continue
				}
				method := rootFunc(f)
				c.SawFunc(method)
				// the request closure
				var reqFn *ssa.Function
				for _, a := range call.Call.Args {
					v := a
					if ct, ok := v.(*ssa.ChangeType); ok {
						v = ct.X
					}
					if mc, ok := v.(*ssa.MakeClosure); ok {
						cf := mc.Fn.(*ssa.Function)
						for _, bb := range cf.Blocks {
							for _, i2 := range bb.Instrs {
								if g, ok := i2.(ssa.CallInstruction); ok && objIs(calleeObj(g.Common()), pkgShrex, "Client", "Get") {
									reqFn = cf
								}
							}
						}
					}
				}
				if reqFn == nil {
					c.Unresolved("R6.1", "request closure of executeRequest call in "+fnName(f))
					continue
				}
				var respArg ssa.Value
				for _, bb := range reqFn.Blocks {
					for _, i2 := range bb.Instrs {
						if g, ok := i2.(ssa.CallInstruction); ok && objIs(calleeObj(g.Common()), pkgShrex, "Client", "Get") {
							respArg = g.Common().Args[3]
						}
					}
				}
				if mi, ok := respArg.(*ssa.MakeInterface); ok {
					respArg = mi.X
				}
				n++
				key := method.Name()
				base := valueBase(respArg)
				// the request closure is invoked once per attempt: a response target that accumulates
				// (anything that is not a shwap decoder, which R6.3 shows fully overwrites) must be
				// reset inside the closure before it is handed to the client
				if rn := derefNamed(respArg.Type()); rn != nil && rn.Obj().Pkg() != nil && rn.Obj().Pkg().Path() != pkgShwap {
					var getBlock *ssa.BasicBlock
					var getIns ssa.Instruction
					for _, bb := range reqFn.Blocks {
						for _, i2 := range bb.Instrs {
							if g, ok := i2.(ssa.CallInstruction); ok && objIs(calleeObj(g.Common()), pkgShrex, "Client", "Get") {
								getBlock, getIns = bb, i2
							}
						}
					}
					resets := blocksWhere(reqFn, func(i2 ssa.Instruction) bool {
						g, ok := i2.(ssa.CallInstruction)
						if !ok || !callNamed(g, "Reset") {
							return false
						}
						a := callRecvArgs(g)
						return len(a) > 0 && valueBase(a[0]) == base
					})
					okReset := false
					if resets[getBlock] {
						for _, i2 := range getBlock.Instrs {
							if i2 == getIns {
								break
							}
							if g, ok := i2.(ssa.CallInstruction); ok && callNamed(g, "Reset") {
								okReset = true
							}
						}
					}
					if !okReset && getBlock != nil {
						res := gateWalkBarrier(p, reqFn, map[*ssa.BasicBlock]bool{getBlock: true}, nil, minusBarrier(resets, map[*ssa.BasicBlock]bool{getBlock: true}))
						okReset = len(resets) > 0 && !res.Reached
					}
					c.Ob("R6.1", key+": accumulating response target reset per attempt", okReset, p.Pos(call.Pos()),
						fmt.Sprintf("the response target is a %s, which appends: the per-attempt request closure resets it before every client.Get, otherwise bytes of a failed attempt corrupt the next peer's answer", rn.Obj().Name()))
				}
				// is the location an element of a slice (IndexAddr) reached through free variables?
				elem := false
				for v := range backSlice(respArg, SliceOpt{}).Vals {
					if _, ok := v.(*ssa.IndexAddr); ok {
						elem = true
					}
				}
				// (a) returns of the outermost method that carry the location
				carried := 0
				for _, r := range returnsOf(method) {
					for _, rv := range r.Results {
						if base != nil && backSlice(rv, SliceOpt{ThroughFreeVars: true}).Vals[base] {
							carried++
							if f == method {
								// executeRequest called in the method itself: gate by its success edge
								res := gateWalk(p, method, map[*ssa.BasicBlock]bool{r.Block(): true}, callGates(func(g *ssa.Call, idx int) GateKind {
									if g == call {
										return GateErr
									}
									return NotGate
								}), nil)
								c.Ob("R6.1", key+": return of response", !res.Reached, p.Pos(r.Pos()), "the decoded response is returned only across executeRequest's success edge (verify closure accepted it)", res.Witness...)
							}
						}
					}
				}
				if f != method {
					// executeRequest runs in a closure (per-element requests): a kill is needed on its failure edge
					failStart := verdictFailureSucc(f, call, false)
					if failStart == nil {
						c.Ob("R6.1", key+": element kill", !elem || carried == 0, p.Pos(call.Pos()),
							"executeRequest's error is returned untested from the per-element closure, so a response slot that was decoded but rejected stays in the slice the method returns")
						continue
					}
					kills := blocksWhere(f, func(i2 ssa.Instruction) bool {
						st, ok := i2.(*ssa.Store)
						if !ok {
							return false
						}
						ia, ok := st.Addr.(*ssa.IndexAddr)
						if !ok {
							return false
						}
						if base == nil || !backSlice(ia.X, SliceOpt{ThroughFreeVars: true}).Vals[base] {
							return false
						}
						// a fresh value: constant zero / composite literal, not derived from the slot itself
						return !backSlice(st.Val, SliceOpt{ThroughFreeVars: true}).Vals[base]
					})
					res := gateWalkOpts(p, f, blocksOfReturns(returnsOf(f)), nil, failStart, kills)
					c.Ob("R6.1", key+": element kill", !res.Reached, p.Pos(call.Pos()),
						"on the failure edge of executeRequest the response slot is overwritten with a fresh value before the closure returns (the method returns the whole slice with the error)", res.Witness...)
				}
			}
		}
	}
	c.Floor("R6.1", "executeRequest call sites", n, 5)
}

func c06Decoders(c *Check) {
	p := c.P
	pk := p.Pkg("share/shwap")
	if pk == nil {
		c.Unresolved("R6.3", "package shwap")
		return
	}
	n := 0
	sc := pk.Types.Scope()
	for _, name := range sc.Names() {
		tn, ok := sc.Lookup(name).(*types.TypeName)
		if !ok || tn.IsAlias() || p.IsTestPos(tn.Pos()) {
			continue
		}
		nt, ok := tn.Type().(*types.Named)
		if !ok {
			continue
		}
		for i := 0; i < nt.NumMethods(); i++ {
			m := nt.Method(i)
			if m.Name() != "ReadFrom" && m.Name() != "UnmarshalJSON" && m.Name() != "UnmarshalBinary" {
				continue
			}
			sig := m.Type().(*types.Signature)
			if _, isPtr := sig.Recv().Type().(*types.Pointer); !isPtr || p.IsTestPos(m.Pos()) {
				continue
			}
			fn := p.SSA.FuncValue(m)
			if fn == nil || fn.Blocks == nil {
				continue
			}
			n++
			c.SawFunc(fn)
			recv := fn.Params[0]
			succ := blocksOfReturns(successReturns(fn))
			whole := blocksWhere(fn, func(ins ssa.Instruction) bool {
				st, ok := ins.(*ssa.Store)
				return ok && st.Addr == ssa.Value(recv)
			})
			key := nt.Obj().Name() + "." + m.Name()
			res := gateWalkBarrier(p, fn, minusBarrier(succ, whole), nil, whole)
			if len(whole) > 0 && !res.Reached {
				c.Ob("R6.3", key, true, p.Pos(fn.Pos()), "stores the whole receiver on every success path")
				continue
			}
			st, isStruct := nt.Underlying().(*types.Struct)
			if !isStruct {
				c.Ob("R6.3", key, false, p.Pos(fn.Pos()), "a success return is reachable without assigning the receiver", res.Witness...)
				continue
			}
			c06FieldsAssigned(c, fn, key, st, func(a ssa.Value) bool { return a == ssa.Value(recv) }, succ, 0)
		}
	}
	c.Floor("R6.3", "pointer-receiver decoders in shwap", n, 12)
}

// c06FieldsAssigned: every field of the struct at the address matched by isBase is
// stored on every path to a success return - as a whole, or (for struct-typed
// fields) field by field, recursively.
func c06FieldsAssigned(c *Check, fn *ssa.Function, key string, st *types.Struct, isBase func(ssa.Value) bool, succ map[*ssa.BasicBlock]bool, depth int) {
	p := c.P
	for fi := 0; fi < st.NumFields(); fi++ {
		fv := st.Field(fi)
		isField := func(a ssa.Value) bool {
			fa, ok := a.(*ssa.FieldAddr)
			return ok && isBase(fa.X) && fieldOf(fa) == fv
		}
		bar := blocksWhere(fn, func(ins ssa.Instruction) bool {
			s2, ok := ins.(*ssa.Store)
			return ok && (isBase(s2.Addr) || isField(s2.Addr))
		})
		r2 := gateWalkBarrier(p, fn, minusBarrier(succ, bar), nil, bar)
		if len(bar) > 0 && !r2.Reached {
			c.Ob("R6.3", key+":"+fv.Name(), true, p.Pos(fn.Pos()), "field "+fv.Name()+" is assigned on every path to a success return")
			continue
		}
		if sub, ok := fv.Type().Underlying().(*types.Struct); ok && depth < 3 {
			c06FieldsAssigned(c, fn, key+":"+fv.Name(), sub, isField, succ, depth+1)
			continue
		}
		c.Ob("R6.3", key+":"+fv.Name(), false, p.Pos(fn.Pos()),
			"field "+fv.Name()+" is not assigned on every path to a success return (a reused receiver keeps state from an earlier response)", r2.Witness...)
	}
}

func minusBarrier(t, bar map[*ssa.BasicBlock]bool) map[*ssa.BasicBlock]bool {
	out := map[*ssa.BasicBlock]bool{}
	for b := range t {
		if !bar[b] {
			out[b] = true
		}
	}
	return out
}

func statusConstsPassedTo(p *Program, target *ssa.Function, argIdx int) map[string]bool {
	out := map[string]bool{}
	for _, f := range p.SrcFuncs {
		if p.IsTestPos(rootFunc(f).Pos()) {
			continue
		}
		for _, b := range f.Blocks {
			for _, ins := range b.Instrs {
				if g, ok := ins.(*ssa.Call); ok && g.Call.StaticCallee() == target {
					if k, ok := g.Call.Args[argIdx].(*ssa.Const); ok && k.Value != nil {
						out[k.Value.ExactString()] = true
					} else {
						out["<non-constant>"] = true
					}
				}
			}
		}
	}
	return out
}

// switchCasesOn collects constants compared (==) with values derived from pred.
func switchCasesOn(fn *ssa.Function, pred func(ssa.Value) bool) map[string]bool {
	out := map[string]bool{}
	for _, b := range fn.Blocks {
		for _, ins := range b.Instrs {
			bo, ok := ins.(*ssa.BinOp)
			if !ok || bo.Op.String() != "==" {
				continue
			}
			var k *ssa.Const
			var other ssa.Value
			if kk, ok := bo.Y.(*ssa.Const); ok {
				k, other = kk, bo.X
			} else if kk, ok := bo.X.(*ssa.Const); ok {
				k, other = kk, bo.Y
			}
			if k == nil || k.Value == nil || !pred(other) {
				continue
			}
			out[k.Value.ExactString()] = true
		}
	}
	return out
}

func c06Status(c *Check) {
	p := c.P
	rs := p.Func("share/shwap/p2p/shrex", "", "respondStatus")
	dr := p.Func("share/shwap/p2p/shrex", "Client", "doRequest")
	exec := p.Func("share/shwap/p2p/shrex/shrex_getter", "Getter", "executeRequest")
	if rs == nil || dr == nil || exec == nil {
		c.Unresolved("R6.4", "respondStatus / doRequest / executeRequest not found")
		return
	}
	c.SawFunc(rs)
	c.SawFunc(dr)
	c.SawFunc(exec)
	written := statusConstsPassedTo(p, rs, 1)
	clientCases := switchCasesOn(dr, func(v ssa.Value) bool {
		return backSlice(v, SliceOpt{}).HasFieldNamed("Response", "Status")
	})
	var ws []string
	for s := range written {
		ws = append(ws, s)
	}
	sort.Strings(ws)
	c.Floor("R6.4", "statuses written by the server", len(written), 3)
	for _, s := range ws {
		c.Ob("R6.4", "client handles status "+s, clientCases[s], p.Pos(dr.Pos()), "the client's status switch has a case for a status the server writes")
	}
	// NOT_FOUND -> ErrNotFound
	nfOK := false
	for _, r := range returnsOf(dr) {
		ei := errResultIndex(dr)
		if isLoadOfGlobal(resolveLocalLoad(r.Results[ei]), "share/shwap/p2p/shrex", "ErrNotFound") {
			// dominated by the NOT_FOUND comparison
			for d := r.Block(); d != nil; d = d.Idom() {
				if id := d.Idom(); id != nil {
					if ifi, ok := id.Instrs[len(id.Instrs)-1].(*ssa.If); ok {
						if bo, ok := ifi.Cond.(*ssa.BinOp); ok {
							if k, ok := bo.Y.(*ssa.Const); ok && k.Value != nil && statusConstIs(p, k, "Status_NOT_FOUND") && id.Succs[0].Dominates(r.Block()) {
								nfOK = true
							}
						}
					}
				}
			}
		}
	}
	c.Ob("R6.4", "NOT_FOUND -> shrex.ErrNotFound", nfOK, p.Pos(dr.Pos()), "the wire status NOT_FOUND is reported as shrex.ErrNotFound")
	// executeRequest: errors.Is(getErr, shrex.ErrNotFound) -> getErr = shwap.ErrNotFound
	mapped := false
	for _, b := range exec.Blocks {
		ifi, ok := b.Instrs[len(b.Instrs)-1].(*ssa.If)
		if !ok {
			continue
		}
		g, ok := ifi.Cond.(*ssa.Call)
		if !ok || g.Call.StaticCallee() == nil || g.Call.StaticCallee().String() != "errors.Is" || !isLoadOfGlobal(g.Call.Args[1], "share/shwap/p2p/shrex", "ErrNotFound") {
			continue
		}
		// in the true successor region shwap.ErrNotFound is loaded
		for _, bb := range exec.Blocks {
			if !b.Succs[0].Dominates(bb) {
				continue
			}
			for _, ins := range bb.Instrs {
				if ld, ok := ins.(*ssa.UnOp); ok && isLoadOfGlobal(ld, "share/shwap", "ErrNotFound") {
					mapped = true
				}
			}
		}
	}
	c.Ob("R6.4", "shrex.ErrNotFound -> shwap.ErrNotFound", mapped, p.Pos(exec.Pos()), "executeRequest reports a peer's not-found as shwap.ErrNotFound")
	// store.Getter
	gt := p.Named("store", "Getter")
	if gt == nil {
		c.Unresolved("R6.4", "store.Getter not found")
		return
	}
	n := 0
	for i := 0; i < gt.NumMethods(); i++ {
		m := gt.Method(i)
		if !strings.HasPrefix(m.Name(), "Get") {
			continue
		}
		fn := p.SSA.FuncValue(m)
		if fn == nil || fn.Blocks == nil {
			continue
		}
		n++
		c.SawFunc(fn)
		ok := false
		ei := errResultIndex(fn)
		for _, r := range returnsOf(fn) {
			if ei >= 0 && isLoadOfGlobal(r.Results[ei], "share/shwap", "ErrNotFound") {
				// behind errors.Is(err, store.ErrNotFound)
				for d := r.Block(); d != nil && d.Idom() != nil; d = d.Idom() {
					id := d.Idom()
					if ifi, isIf := id.Instrs[len(id.Instrs)-1].(*ssa.If); isIf {
						if g, isCall := ifi.Cond.(*ssa.Call); isCall && g.Call.StaticCallee() != nil && g.Call.StaticCallee().String() == "errors.Is" && isLoadOfGlobal(g.Call.Args[1], "store", "ErrNotFound") {
							ok = true
						}
					}
				}
			}
		}
		c.Ob("R6.4", "store.Getter."+m.Name()+" not-found mapping", ok, p.Pos(fn.Pos()), "store.ErrNotFound is reported as shwap.ErrNotFound")
		pairAcquireRelease(c, "R6.6", fn, func(g *ssa.Call) bool {
			return g.Call.StaticCallee() != nil && g.Call.StaticCallee().Name() == "GetByHeight"
		}, "Close", "accessor")
	}
	c.Floor("R6.4", "store.Getter methods", n, 5)
}

// resolveLocalLoad: v is a load of a local; returns the value last stored to the
// local in the same block before the load (named results captured by a deferred
// closure are returned through such loads).
func resolveLocalLoad(v ssa.Value) ssa.Value {
	ld, ok := v.(*ssa.UnOp)
	if !ok {
		return v
	}
	al, ok := ld.X.(*ssa.Alloc)
	if !ok {
		return v
	}
	var last ssa.Value
	for _, ins := range ld.Block().Instrs {
		if ins == ssa.Instruction(ld) {
			break
		}
		if st, ok := ins.(*ssa.Store); ok && st.Addr == ssa.Value(al) {
			last = st.Val
		}
	}
	if last != nil {
		return last
	}
	return v
}

func statusConstIs(p *Program, k *ssa.Const, name string) bool {
	n := derefNamed(k.Type())
	if n == nil || n.Obj().Pkg() == nil {
		return false
	}
	if cst, ok := n.Obj().Pkg().Scope().Lookup(name).(*types.Const); ok {
		return constant.Compare(cst.Val(), 39 /* token.EQL */, k.Value)
	}
	return false
}

var c06PanicAllow = map[string]string{
	"share/shwap/p2p/bitswap.fetch":       "stated belief in the code: a duplicate block that verified in the hasher cannot fail to unmarshal again; needs two different trusted roots for one CID",
	"share/shwap/p2p/bitswap.encodeToCID": "identifiers are validated at construction and refuse unrepresentable values (C18 R18.2), so MarshalBinary cannot fail for a constructed ID",
}

func c06Panics(c *Check) {
	p := c.P
	gi := p.Named("share/shwap", "Getter")
	if gi == nil {
		c.Unresolved("R6.5", "shwap.Getter not found")
		return
	}
	it := gi.Underlying().(*types.Interface)
	var entries []*ssa.Function
	impls := 0
	for _, n := range p.Implementers(it) {
		pp := n.Obj().Pkg().Path()
		if !strings.Contains(pp, "/p2p/") && !strings.HasSuffix(pp, "/getters") {
			continue
		}
		if strings.HasSuffix(p.Fset.Position(n.Obj().Pos()).Filename, "testing.go") {
			continue // test utilities
		}
		impls++
		for i := 0; i < it.NumMethods(); i++ {
			if f := p.Method(n, it.Method(i).Name()); f != nil {
				entries = append(entries, f)
				c.SawFunc(f)
			}
		}
	}
	c.Floor("R6.5", "network/cascade getter implementations", impls, 3)
	panicReach(c, "R6.5", entries, c06PanicAllow, ReachOpt{IntoAnon: true, SkipFn: func(f *ssa.Function) bool {
		r := rootFunc(f)
		if r.Pkg == nil {
			return false
		}
		pp := r.Pkg.Pkg.Path()
		// the local store / accessor / ipld layers are not part of the network getters' surface
		// (their explicit panics are invariant assertions; the server side runs them under
		// RecoveryMiddleware, see C09 R9.7); testing.go files hold test utilities
		if isTestSupportPkg(pp) || strings.HasPrefix(pp, modPath+"/store") || pp == modPath+"/share/eds" || pp == modPath+"/share/ipld" || pp == modPath+"/share" {
			return true
		}
		return strings.HasSuffix(p.Fset.Position(r.Pos()).Filename, "testing.go")
	}})
}

func c06CloseAndCascade(c *Check) {
	p := c.P
	// cascadeGetters (generic): every return of a non-zero value is on the err == nil edge of the getter call
	var casc []*ssa.Function
	for _, f := range p.FuncsOfPkg("share/shwap/getters") {
		if strings.HasPrefix(f.Name(), "cascadeGetters") && f.Parent() == nil {
			casc = append(casc, f)
		}
	}
	if len(casc) == 0 {
		// generic function: look at instantiations
		for f := range p.AllFuncs {
			if f.Origin() != nil && f.Origin().Name() == "cascadeGetters" && f.Blocks != nil {
				casc = append(casc, f)
			}
		}
	}
	sort.Slice(casc, func(i, j int) bool { return casc[i].String() < casc[j].String() })
	c.Floor("R6.6", "cascadeGetters bodies", len(casc), 1)
	for i, f := range casc {
		if i > 0 {
			break // instantiations share one body
		}
		c.SawFunc(f)
		for _, r := range returnsOf(f) {
			cls, _ := classifyReturn(r, errResultIndex(f))
			if cls != retNil {
				// error return: value must be the zero value
				if _, isConst := r.Results[0].(*ssa.Const); !isConst {
					if _, isLoad := r.Results[0].(*ssa.UnOp); isLoad {
						// load of a zero-valued local is accepted only if that local is never stored
						al, _ := r.Results[0].(*ssa.UnOp).X.(*ssa.Alloc)
						stored := false
						if al != nil && al.Referrers() != nil {
							for _, ref := range *al.Referrers() {
								if st, ok := ref.(*ssa.Store); ok && st.Addr == ssa.Value(al) {
									stored = true
								}
							}
						}
						c.Ob("R6.6", fmt.Sprintf("cascade error return@block%d", r.Block().Index), al != nil && !stored, p.Pos(r.Pos()), "an error return carries the zero value (partial results of a failed getter are discarded)")
						continue
					}
					c.Ob("R6.6", fmt.Sprintf("cascade error return@block%d", r.Block().Index), false, p.Pos(r.Pos()), "an error return carries a non-zero value")
					continue
				}
				c.Ob("R6.6", fmt.Sprintf("cascade error return@block%d", r.Block().Index), true, p.Pos(r.Pos()), "zero value with the error")
				continue
			}
			// success return: behind err == nil of the getter call it returns the value of
			res := gateWalk(p, f, map[*ssa.BasicBlock]bool{r.Block(): true}, callGates(func(g *ssa.Call, idx int) GateKind {
				if backSlice(r.Results[0], SliceOpt{}).Vals[g] {
					return GateErr
				}
				return NotGate
			}), nil)
			c.Ob("R6.6", fmt.Sprintf("cascade success return@block%d", r.Block().Index), !res.Reached, p.Pos(r.Pos()), "a value is returned only across err == nil of the getter that produced it", res.Witness...)
		}
	}
}

// ---------------- C09 ----------------

func runC09(c *Check) {
	p := c.P
	c.Rule("R9.1", "handler: accessor closed and reserved memory released on every path")
	c.Rule("R9.2", "registry == request implementations == per-protocol stream limits; distinct names")
	c.Rule("R9.3", "every status written has a case in respondStatus")
	c.Rule("R9.4", "handlers are registered wrapped in RecoveryMiddleware")
	c.Rule("R9.5", "store accessed only after Validate success; ResponseSize only after Size success")
	c.Rule("R9.6", "validation wrapper overrides every index-bearing accessor method with a bounds gate")
	c.Rule("R9.7", "explicit panics reachable from the stream handler (under RecoveryMiddleware)")
	// the serving path reads every block through the proofs-caching wrapper
	c05ProofsCache(c, "R9.8")
	defer c09AccessorOutlivesCopy(c)
	h := p.Func("share/shwap/p2p/shrex", "Server", "handleDataRequest")
	if h == nil {
		c.Unresolved("R9.1", "handleDataRequest not found")
		return
	}
	c.SawFunc(h)
	nAcc := pairAcquireRelease(c, "R9.1", h, func(g *ssa.Call) bool { return g.Call.IsInvoke() && g.Call.Method.Name() == "GetByHeight" }, "Close", "accessor")
	c.Floor("R9.1", "accessor acquisitions in handleDataRequest", nAcc, 1)
	c09Memory(c, h)
	c09Registry(c)
	// R9.3
	rs := p.Func("share/shwap/p2p/shrex", "", "respondStatus")
	if rs != nil {
		c.SawFunc(rs)
		written := statusConstsPassedTo(p, rs, 1)
		cases := switchCasesOn(rs, func(v ssa.Value) bool { return v == ssa.Value(rs.Params[1]) })
		for s := range written {
			c.Ob("R9.3", "respondStatus case "+s, cases[s], p.Pos(rs.Pos()), "a status the server passes has its own case (the default branch panics)")
		}
		c.Floor("R9.3", "statuses passed to respondStatus", len(written), 3)
	} else {
		c.Unresolved("R9.3", "respondStatus not found")
	}
	c09Recovery(c)
	// R9.5
	tg := blocksWhere(h, func(ins ssa.Instruction) bool {
		g, ok := ins.(*ssa.Call)
		return ok && g.Call.IsInvoke() && g.Call.Method.Name() == "GetByHeight"
	})
	res := gateWalk(p, h, tg, callGates(func(g *ssa.Call, idx int) GateKind {
		if g.Call.IsInvoke() && g.Call.Method.Name() == "Validate" && g.Call.Value == ssa.Value(h.Params[2]) {
			return GateErr
		}
		return NotGate
	}), nil)
	c.Ob("R9.5", "store access after Validate", !res.Reached && len(tg) > 0, p.Pos(h.Pos()), "the store is consulted only for a request that passed Validate()", res.Witness...)
	res = gateWalk(p, h, tg, callGates(func(g *ssa.Call, idx int) GateKind {
		if g.Call.IsInvoke() && g.Call.Method.Name() == "ReadFrom" && g.Call.Value == ssa.Value(h.Params[2]) {
			return GateErr
		}
		return NotGate
	}), nil)
	c.Ob("R9.5", "store access after complete request read", !res.Reached, p.Pos(h.Pos()), "the store is consulted only after the request was read without error", res.Witness...)
	tg2 := blocksWhere(h, func(ins ssa.Instruction) bool {
		g, ok := ins.(*ssa.Call)
		return ok && g.Call.IsInvoke() && g.Call.Method.Name() == "ResponseSize"
	})
	res = gateWalk(p, h, tg2, callGates(func(g *ssa.Call, idx int) GateKind {
		if g.Call.IsInvoke() && g.Call.Method.Name() == "Size" {
			return GateErr
		}
		return NotGate
	}), nil)
	c.Ob("R9.5", "ResponseSize after Size", !res.Reached && len(tg2) > 0, p.Pos(h.Pos()), "the reservation size is computed from a successfully read square size", res.Witness...)
	c09Validation(c)
	// R9.7
	sh := p.Func("share/shwap/p2p/shrex", "Server", "streamHandler")
	if sh != nil {
		sub := newCheck(c.Prop, c.Tier, p)
		n := panicReach(sub, "R9.7", append([]*ssa.Function{sh}, Closures(sh)...), map[string]string{}, ReachOpt{IntoAnon: true, SkipFn: func(f *ssa.Function) bool {
			r := rootFunc(f)
			return r.Pkg != nil && isTestSupportPkg(r.Pkg.Pkg.Path())
		}})
		for _, f := range sub.findings {
			c.Note("panic reachable from streamHandler (recovered by RecoveryMiddleware): %s at %s", f.Construct, f.Pos)
		}
		c.Ob("R9.7", "panics under recovery", true, p.Pos(sh.Pos()), fmt.Sprintf("%d explicit panic sites reachable from the stream handler, all inside the handler wrapped by RecoveryMiddleware (R9.4)", n))
	}
}

func c09Memory(c *Check, h *ssa.Function) {
	p := c.P
	n := 0
	for _, b := range h.Blocks {
		for _, ins := range b.Instrs {
			a, ok := ins.(*ssa.Call)
			if !ok || !a.Call.IsInvoke() || a.Call.Method.Name() != "ReserveMemory" {
				continue
			}
			n++
			amount := a.Call.Args[0]
			release := blocksWhere(h, func(i2 ssa.Instruction) bool {
				ci, ok := i2.(ssa.CallInstruction)
				if !ok {
					return false
				}
				cm := ci.Common()
				return cm.IsInvoke() && cm.Method.Name() == "ReleaseMemory" && len(cm.Args) == 1 && cm.Args[0] == amount
			})
			cut := func(bb *ssa.BasicBlock, ifi *ssa.If) (bool, bool) {
				if x, eq, ok := nilTest(ifi.Cond); ok && x == ssa.Value(a) {
					return !eq, eq
				}
				return false, false
			}
			res := gateWalkFrom(p, h, b, blocksOfReturns(returnsOf(h)), cut, release)
			c.Ob("R9.1", "ReserveMemory paired", !res.Reached && len(release) > 0, p.Pos(a.Pos()),
				"from the success edge of ReserveMemory(n) every return passes ReleaseMemory(n) with the same amount value", res.Witness...)
		}
	}
	c.Floor("R9.1", "ReserveMemory calls", n, 1)
}

func c09Registry(c *Check) {
	p := c.P
	sp := p.SSAPkg("share/shwap/p2p/shrex")
	if sp == nil {
		c.Unresolved("R9.2", "package shrex")
		return
	}
	// registry: closures in the package initialiser returning &shwap.T{}
	regTypes := map[string]bool{}
	limitTypes := map[string]bool{}
	initFn := sp.Func("init")
	if initFn == nil {
		c.Unresolved("R9.2", "package initialiser")
		return
	}
	var regGlobal, limGlobal *ssa.Global
	if g, ok := sp.Members["registry"].(*ssa.Global); ok {
		regGlobal = g
	}
	if g, ok := sp.Members["peerStreamsPerProtocol"].(*ssa.Global); ok {
		limGlobal = g
	}
	if regGlobal == nil || limGlobal == nil {
		c.Unresolved("R9.2", "registry / peerStreamsPerProtocol globals")
		return
	}
	for _, cf := range Closures(initFn) {
		for _, b := range cf.Blocks {
			for _, ins := range b.Instrs {
				if mi, ok := ins.(*ssa.MakeInterface); ok {
					if n := derefNamed(mi.X.Type()); n != nil && n.Obj().Pkg().Path() == pkgShwap {
						regTypes[n.Obj().Name()] = true
					}
				}
			}
		}
	}
	// limits: map updates in init keyed by (&shwap.T{}).Name()
	for _, b := range initFn.Blocks {
		for _, ins := range b.Instrs {
			mu, ok := ins.(*ssa.MapUpdate)
			if !ok {
				continue
			}
			g, ok := mu.Key.(*ssa.Call)
			if !ok || g.Call.StaticCallee() == nil || g.Call.StaticCallee().Name() != "Name" {
				continue
			}
			if n := derefNamed(g.Call.StaticCallee().Signature.Recv().Type()); n != nil {
				// only entries stored into the limits map
				limitTypes[n.Obj().Name()] = true
			}
		}
	}
	// implementations of the request interface
	reqT, _ := sp.Pkg.Scope().Lookup("request").(*types.TypeName)
	implTypes := map[string]bool{}
	names := map[string]string{}
	if reqT != nil {
		it := reqT.Type().Underlying().(*types.Interface)
		for _, n := range p.Implementers(it) {
			if n.Obj().Pkg().Path() == pkgShwap {
				implTypes[n.Obj().Name()] = true
			}
		}
	}
	all := map[string]bool{}
	for k := range regTypes {
		all[k] = true
	}
	for k := range limitTypes {
		all[k] = true
	}
	var ks []string
	for k := range all {
		ks = append(ks, k)
	}
	sort.Strings(ks)
	c.Floor("R9.2", "registry entries", len(regTypes), 5)
	for _, k := range ks {
		c.Ob("R9.2", "request type "+k, regTypes[k] && limitTypes[k] && implTypes[k], p.Pos(initFn.Pos()),
			fmt.Sprintf("in registry=%v, has per-protocol stream limit=%v, implements request=%v", regTypes[k], limitTypes[k], implTypes[k]))
	}
	// distinct protocol names: the constant returned by each type's Name()
	for k := range regTypes {
		if n := p.Named("share/shwap", k); n != nil {
			if f := p.Method(n, "Name"); f != nil {
				for _, r := range returnsOf(f) {
					if kk, ok := r.Results[0].(*ssa.Const); ok && kk.Value != nil {
						s := constant.StringVal(kk.Value)
						prev, dup := names[s]
						c.Ob("R9.2", "protocol name "+s, !dup, p.Pos(f.Pos()), fmt.Sprintf("name of %s is unique (also used by %q)", k, prev))
						names[s] = k
					}
				}
			}
		}
	}
}

func c09Recovery(c *Check) {
	p := c.P
	start := p.Func("share/shwap/p2p/shrex", "Server", "Start")
	rec := p.Func("share/shwap/p2p/shrex", "", "RecoveryMiddleware")
	if start == nil || rec == nil {
		c.Unresolved("R9.4", "Server.Start / RecoveryMiddleware not found")
		return
	}
	c.SawFunc(start)
	c.SawFunc(rec)
	n := 0
	for _, b := range start.Blocks {
		for _, ins := range b.Instrs {
			g, ok := ins.(*ssa.Call)
			if !ok || g.Call.StaticCallee() == nil || g.Call.StaticCallee().Name() != "SetHandler" {
				continue
			}
			n++
			hv := g.Call.Args[len(g.Call.Args)-1]
			rc, ok := hv.(*ssa.Call)
			okWrap := ok && rc.Call.StaticCallee() == rec
			inner := false
			if okWrap {
				sl := backSlice(rc.Call.Args[0], SliceOpt{})
				inner = sl.Has(func(v ssa.Value) bool {
					cc, ok := v.(*ssa.Call)
					return ok && cc.Call.StaticCallee() != nil && cc.Call.StaticCallee().Name() == "streamHandler"
				})
			}
			c.Ob("R9.4", "SetHandler argument", okWrap && inner, p.Pos(g.Pos()), "the registered handler is RecoveryMiddleware(streamHandler(...))")
		}
	}
	c.Floor("R9.4", "SetHandler calls in Start", n, 1)
	// RecoveryMiddleware: deferred closure calls recover()
	hasRecover := false
	for _, f := range Closures(rec) {
		for _, b := range f.Blocks {
			for _, ins := range b.Instrs {
				if g, ok := ins.(*ssa.Call); ok {
					if bi, ok := g.Call.Value.(*ssa.Builtin); ok && bi.Name() == "recover" {
						hasRecover = true
					}
				}
			}
		}
	}
	c.Ob("R9.4", "RecoveryMiddleware recovers", hasRecover, p.Pos(rec.Pos()), "the middleware's deferred function calls recover()")
}

func c09Validation(c *Check) {
	p := c.P
	acc := p.Named("share/eds", "Accessor")
	val := p.Named("share/eds", "validation")
	if acc == nil || val == nil {
		c.Unresolved("R9.6", "eds.Accessor / eds.validation not found")
		return
	}
	it := acc.Underlying().(*types.Interface)
	n := 0
	for i := 0; i < it.NumMethods(); i++ {
		m := it.Method(i)
		sig := m.Type().(*types.Signature)
		var idxParams []int
		for j := 0; j < sig.Params().Len(); j++ {
			pt := sig.Params().At(j).Type()
			if b, ok := pt.(*types.Basic); ok && b.Kind() == types.Int { // plain int only: rsmt2d.Axis is an enum, not an index
				idxParams = append(idxParams, j)
			}
			if namedIs(pt, pkgShwap, "SampleCoords") {
				idxParams = append(idxParams, j)
			}
		}
		if len(idxParams) == 0 {
			continue
		}
		n++
		// declared on validation itself (not promoted from the embedded Accessor)
		var own *types.Func
		for k := 0; k < val.NumMethods(); k++ {
			if val.Method(k).Name() == m.Name() {
				own = val.Method(k)
			}
		}
		if own == nil {
			c.Ob("R9.6", "validation."+m.Name(), false, p.Pos(m.Pos()), "index-bearing accessor method is not overridden by the validation wrapper: indices reach the file reader unchecked")
			continue
		}
		fn := p.SSA.FuncValue(own)
		c.SawFunc(fn)
		// the delegate call
		tg := blocksWhere(fn, func(ins ssa.Instruction) bool {
			g, ok := ins.(*ssa.Call)
			return ok && g.Call.IsInvoke() && g.Call.Method.Name() == m.Name()
		})
		if len(tg) == 0 {
			c.Ob("R9.6", "validation."+m.Name(), false, p.Pos(fn.Pos()), "no delegate call found")
			continue
		}
		for _, j := range idxParams {
			prm := fn.Params[j+1]
			cut, desc := failGates(fn, func(cond ssa.Value, sl *Slice) bool {
				if !sl.Vals[prm] {
					return false
				}
				// depends on the square size too (call to Size) unless it is a pure ordering check between parameters
				return true
			})
			res := gateWalk(p, fn, tg, cut, nil)
			// at least one of the gates depends on the size
				sizeDep := false
			for _, b := range fn.Blocks {
				if ifi, ok := b.Instrs[len(b.Instrs)-1].(*ssa.If); ok {
					sl := backSlice(ifi.Cond, SliceOpt{CallArgs: true, PhiControl: true})
					if sl.Vals[prm] && sl.Has(func(v ssa.Value) bool {
						g, ok := v.(*ssa.Call)
						return ok && g.Call.StaticCallee() != nil && g.Call.StaticCallee().Name() == "Size"
					}) {
						sizeDep = true
					}
				}
			}
			c.Ob("R9.6", "validation."+m.Name()+":"+prm.Name(), !res.Reached && sizeDep, p.Pos(fn.Pos()),
				fmt.Sprintf("the delegate is reached only across a rejecting check on %s (%d checks), at least one of which also depends on the square size", prm.Name(), len(desc)), res.Witness...)
		}
	}
	c.Floor("R9.6", "index-bearing eds.Accessor methods", n, 4)
}
