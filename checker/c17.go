package main

import (
	"fmt"
	"go/token"
	"go/types"
	"strings"

	"golang.org/x/tools/go/ssa"
)

func init() {
	register("C17", runC17,
		"Structural necessary conditions of 'peer selection never deadlocks and never hands out a wrong peer', package share/shwap/p2p/shrex/peers. R17.1 lock order: abstract locks (owner type + mutex field) and a lock-order graph built from every acquisition made while another lock may be held, through calls and through function values resolved by VTA (the timed queue's onPop callback); any cycle between locks, or nested acquisition of two locks of one class, is a deadlock candidate reported with both acquisition chains. R17.2 guarded-by: pool.{peersList,statuses,activeCount,nextIdx,hasPeer,hasPeerCh} under pool.m, timedQueue.{items,after} under its Mutex, Manager.pools under Manager.lock - locally or on every call path from a root caller. R17.3 offered implies active: tryGet returns (peer,true) only across statuses[peer]==active. R17.4 promotion guard: every site adding to Manager.nodes with peers that came from a hash pool or a shrex-sub message is behind isValidatedDataHash (Load or successful CompareAndSwap); discovery is the one reasoned exception. R17.5 blacklist consistency: every site adding to Manager.nodes is behind !isBlacklistedPeer for the same peer, and every peer handed out from a hash pool in Manager.Peer is behind !removeIfUnreachable. R17.6 cool-down: statuses[x]=active is stored only behind status==cooldown (afterCooldown, referenced only as the queue's callback) or behind absent/removed (add). R17.7 counting: activeCount is decremented only behind status==active and incremented only behind a status test. Not decided: wake-ups, absence of hangs beyond lock-order cycles, counters against a reference model, cool-down timing.",
		"sync.Mutex/RWMutex are the only blocking primitives considered; channel-based waiting is not modelled")
}

const pkgPeers = modPath + "/share/shwap/p2p/shrex/peers"

func runC17(c *Check) {
	p := c.P
	c.Rule("R17.1", "no cycle in the lock-order graph of package peers; no nested acquisition of two locks of one class")
	c.Rule("R17.2", "guarded-by: pool, timedQueue and Manager.pools state accessed only under their mutex")
	c.Rule("R17.3", "tryGet offers a peer only if its status is active")
	c.Rule("R17.4", "promotion to the general pool only behind a validated data hash (discovery excepted)")
	c.Rule("R17.5", "blacklist consistency: adds to the general pool and offers from hash pools are behind the blacklist/unreachable check for that peer")
	c.Rule("R17.6", "a peer becomes active again only from cool-down expiry or from absent/removed")
	c.Rule("R17.7", "activeCount changes are guarded by the peer's previous status")

	la := newLockAnalysis(p, "share/shwap/p2p/shrex/peers")
	c.Floor("R17.1", "abstract locks in package peers", len(la.locks), 3)
	for l := range la.locks {
		c.Note("lock: %s", l)
	}
	cyc := la.cycles(func(string) bool { return true })
	for _, cy := range cyc {
		var names []string
		var path []string
		for _, e := range cy {
			names = append(names, e.from)
			path = append(path, e.from+" -> "+e.to+": "+e.where)
		}
		c.Ob("R17.1", "cycle:"+strings.Join(names, "->"), false, "-", "lock-order cycle (deadlock candidate): "+strings.Join(names, " -> ")+" -> "+names[0], path...)
	}
	if len(cyc) == 0 {
		c.Ob("R17.1", "lock-order graph acyclic", true, "-", fmt.Sprintf("%d locks, %d order edges, 0 cycles", len(la.locks), len(la.edges)))
	}
	for _, e := range la.edges {
		c.Note("order edge %s -> %s: %s", e.from, e.to, e.where)
	}

	ctorExempt := map[string]string{"peers.newPool": "constructor: the pool is not shared yet", "peers.newTimedQueue": "constructor", "peers.NewManager": "constructor"}
	n := 0
	n += la.checkGuarded(c, "R17.2", guardRule{pkgPeers, "pool", []string{"peersList", "statuses", "activeCount", "nextIdx", "hasPeer", "hasPeerCh"}, "peers.pool.m",
		"pool state is shared between request goroutines, the shrex-sub validator, the GC loop and cool-down timers", ctorExempt})
	n += la.checkGuarded(c, "R17.2", guardRule{pkgPeers, "timedQueue", []string{"items", "after"}, "peers.timedQueue.Mutex",
		"the queue is pushed to by request goroutines and drained by timer goroutines", ctorExempt})
	n += la.checkGuarded(c, "R17.2", guardRule{pkgPeers, "Manager", []string{"pools"}, "peers.Manager.lock",
		"pools map is used by validator, header subscription, requests and GC", ctorExempt})
	c.Floor("R17.2", "guarded field accesses", n, 40)
	// every lock released on all paths; no blocking wait under a lock
	for _, f := range la.funcs {
		la.checkReleasedAtReturns(c, "R17.1", f)
	}
	nb := la.checkNoBlockingUnderLock(c, "R17.1", nil)
	c.Floor("R17.1", "blocking operations in package peers", nb, 1)

	c17TryGet(c)
	c17NodesAdds(c)
	c17PeerOffers(c)
	c17StatusTransitions(c)
	c17BlacklistRemoves(c)
	c17CooldownEntries(c)
}

func c17TryGet(c *Check) {
	p := c.P
	fn := p.Func("share/shwap/p2p/shrex/peers", "pool", "tryGet")
	if fn == nil {
		c.Unresolved("R17.3", "(*pool).tryGet not found")
		return
	}
	c.SawFunc(fn)
	activeCut := func(b *ssa.BasicBlock, ifi *ssa.If) (bool, bool) {
		a := stripNot(ifi.Cond)
		bo, ok := a.Base.(*ssa.BinOp)
		if !ok || (bo.Op != token.EQL && bo.Op != token.NEQ) {
			return false, false
		}
		if !isStatusLookup(bo.X) && !isStatusLookup(bo.Y) {
			return false, false
		}
		k, _ := bo.Y.(*ssa.Const)
		if k == nil {
			k, _ = bo.X.(*ssa.Const)
		}
		if k == nil || statusConstName(p, k) != "active" {
			return false, false
		}
		isActiveWhenTrue := (bo.Op == token.EQL) != a.Neg
		return isActiveWhenTrue, !isActiveWhenTrue
	}
	n := 0
	for _, r := range returnsOf(fn) {
		if len(r.Results) != 2 {
			continue
		}
		k, ok := r.Results[1].(*ssa.Const)
		if !ok || k.Value == nil || k.Value.String() != "true" {
			continue
		}
		n++
		res := gateWalk(p, fn, map[*ssa.BasicBlock]bool{r.Block(): true}, activeCut, nil)
		c.Ob("R17.3", "tryGet return (peer,true)", !res.Reached, p.Pos(r.Pos()), "a peer is offered only across statuses[peer] == active", res.Witness...)
	}
	c.Floor("R17.3", "offering returns of tryGet", n, 1)
}

func isStatusLookup(v ssa.Value) bool {
	switch x := v.(type) {
	case *ssa.Lookup:
		f := fieldOfAddr(x.X)
		return f != nil && f.Name() == "statuses"
	case *ssa.Extract:
		if lk, ok := x.Tuple.(*ssa.Lookup); ok && x.Index == 0 {
			return isStatusLookup(lk)
		}
	case *ssa.Phi:
		for _, e := range x.Edges {
			if isStatusLookup(e) {
				return true
			}
		}
	}
	return false
}

func statusConstName(p *Program, k *ssa.Const) string {
	if k == nil || k.Value == nil || !namedIs(k.Type(), pkgPeers, "status") {
		return ""
	}
	pk := p.Pkg("share/shwap/p2p/shrex/peers")
	for _, n := range pk.Types.Scope().Names() {
		if cst, ok := pk.Types.Scope().Lookup(n).(*types.Const); ok && namedIs(cst.Type(), pkgPeers, "status") && cst.Val().ExactString() == k.Value.ExactString() {
			return cst.Name()
		}
	}
	return ""
}

// isNodesRecv: the receiver of a pool method call is m.nodes.
func isNodesRecv(v ssa.Value) bool {
	f := fieldOfAddr(v)
	return f != nil && f.Name() == "nodes"
}

func c17NodesAdds(c *Check) {
	p := c.P
	add := p.Func("share/shwap/p2p/shrex/peers", "pool", "add")
	isBl := p.Func("share/shwap/p2p/shrex/peers", "Manager", "isBlacklistedPeer")
	if add == nil || isBl == nil {
		c.Unresolved("R17.5", "(*pool).add / (*Manager).isBlacklistedPeer not found")
		return
	}
	n := 0
	for _, f := range p.FuncsOfPkg("share/shwap/p2p/shrex/peers") {
		for _, b := range f.Blocks {
			for _, ins := range b.Instrs {
				cl, ok := ins.(*ssa.Call)
				if !ok || cl.Call.StaticCallee() != add || !isNodesRecv(cl.Call.Args[0]) {
					continue
				}
				n++
				c.SawFunc(f)
				site := fnName(f)
				peersArg := cl.Call.Args[1]
				argSl := backSlice(peersArg, SliceOpt{CallArgs: true})
				// R17.5: behind !isBlacklistedPeer(x) with x feeding the added peers
				blCut := callGates(func(g *ssa.Call, idx int) GateKind {
					if g.Call.StaticCallee() == isBl && (argSl.Vals[g.Call.Args[1]] || sameRoot(g.Call.Args[1], peersArg)) {
						return GateFalse
					}
					return NotGate
				})
				res := gateWalk(p, f, map[*ssa.BasicBlock]bool{b: true}, blCut, nil)
				c.Ob("R17.5", "nodes.add@"+site, !res.Reached, p.Pos(cl.Pos()), "peers enter the general pool only across !isBlacklistedPeer for those peers", res.Witness...)
				// R17.4: behind validated hash unless the peers come from discovery
				fromHashPool := argSl.Has(func(v ssa.Value) bool {
					g, ok := v.(*ssa.Call)
					return ok && g.Call.StaticCallee() != nil && g.Call.StaticCallee().Name() == "peers"
				})
				inValidate := f.Name() == "Validate"
				if !fromHashPool && !inValidate {
					c.Ob("R17.4", "nodes.add@"+site, f.Name() == "UpdateNodePool", p.Pos(cl.Pos()), "exception: peers reported by discovery are added directly (any other ungated site is a violation)")
					continue
				}
				valCut := func(bb *ssa.BasicBlock, ifi *ssa.If) (bool, bool) {
					a := stripNot(ifi.Cond)
					g, ok := a.Base.(*ssa.Call)
					if !ok {
						return false, false
					}
					o := calleeObj(&g.Call)
					if o == nil || pkgPathOf(o) != "sync/atomic" || (o.Name() != "Load" && o.Name() != "CompareAndSwap") {
						return false, false
					}
					if fv := fieldOfAddr(g.Call.Args[0]); fv == nil || fv.Name() != "isValidatedDataHash" {
						return false, false
					}
					if o.Name() == "CompareAndSwap" {
						// success of CAS(false,true)
						if len(g.Call.Args) != 3 {
							return false, false
						}
					}
					return !a.Neg, a.Neg
				}
				res = gateWalk(p, f, map[*ssa.BasicBlock]bool{b: true}, valCut, nil)
				c.Ob("R17.4", "nodes.add@"+site, !res.Reached, p.Pos(cl.Pos()), "peers of a hash pool are promoted only across isValidatedDataHash (Load true / CompareAndSwap success)", res.Witness...)
			}
		}
	}
	c.Floor("R17.5", "sites adding to Manager.nodes", n, 3)
}

func sameRoot(a, b ssa.Value) bool {
	ra := backSlice(a, SliceOpt{})
	rb := backSlice(b, SliceOpt{})
	for v := range ra.Vals {
		switch v.(type) {
		case *ssa.Parameter, *ssa.Next, *ssa.Phi, *ssa.Extract:
			if rb.Vals[v] {
				return true
			}
		}
	}
	return false
}

func c17PeerOffers(c *Check) {
	p := c.P
	peerFn := p.Func("share/shwap/p2p/shrex/peers", "Manager", "Peer")
	newPeer := p.Func("share/shwap/p2p/shrex/peers", "Manager", "newPeer")
	riu := p.Func("share/shwap/p2p/shrex/peers", "Manager", "removeIfUnreachable")
	if peerFn == nil || newPeer == nil || riu == nil {
		c.Unresolved("R17.5", "Manager.Peer / newPeer / removeIfUnreachable not found")
		return
	}
	c.SawFunc(peerFn)
	c.SawFunc(riu)
	n := 0
	for _, b := range peerFn.Blocks {
		for _, ins := range b.Instrs {
			cl, ok := ins.(*ssa.Call)
			if !ok || cl.Call.StaticCallee() != newPeer {
				continue
			}
			// args: m, ctx, datahash, peerID, source, poolSize, waitTime
			src, _ := cl.Call.Args[4].(*ssa.Const)
			if src == nil {
				c.Ob("R17.5", "Peer offer with non-constant source", false, p.Pos(cl.Pos()), "cannot classify the offer")
				continue
			}
			isHashPool := peerSourceName(p, src) == "sourceShrexSub"
			if !isHashPool {
				continue
			}
			n++
			peerArg := cl.Call.Args[3]
			cut := callGates(func(g *ssa.Call, idx int) GateKind {
				if g.Call.StaticCallee() == riu && (g.Call.Args[2] == peerArg || sameRoot(g.Call.Args[2], peerArg)) {
					return GateFalse
				}
				return NotGate
			})
			res := gateWalk(p, peerFn, map[*ssa.BasicBlock]bool{b: true}, cut, nil)
			c.Ob("R17.5", fmt.Sprintf("Peer offer from hash pool #%d", n), !res.Reached, p.Pos(cl.Pos()),
				"a peer taken from a data-hash pool is handed out only across !removeIfUnreachable(pool, peer) (blacklisted or disconnected peers are dropped and the request retried)", res.Witness...)
		}
	}
	c.Floor("R17.5", "offers from hash pools in Manager.Peer", n, 2)
	// removeIfUnreachable consults the blacklist
	isBl := p.Func("share/shwap/p2p/shrex/peers", "Manager", "isBlacklistedPeer")
	uses := false
	for _, b := range riu.Blocks {
		for _, ins := range b.Instrs {
			if cl, ok := ins.(*ssa.Call); ok && cl.Call.StaticCallee() == isBl && cl.Call.Args[1] == ssa.Value(riu.Params[2]) {
				uses = true
			}
		}
	}
	c.Ob("R17.5", "removeIfUnreachable checks the blacklist", uses, p.Pos(riu.Pos()), "removeIfUnreachable calls isBlacklistedPeer for its peer argument")
}

func peerSourceName(p *Program, k *ssa.Const) string {
	pk := p.Pkg("share/shwap/p2p/shrex/peers")
	for _, n := range pk.Types.Scope().Names() {
		if cst, ok := pk.Types.Scope().Lookup(n).(*types.Const); ok && types.Identical(cst.Type(), k.Type()) && cst.Val().ExactString() == k.Value.ExactString() {
			return cst.Name()
		}
	}
	return ""
}

func c17StatusTransitions(c *Check) {
	p := c.P
	// status-test cuts: which previous status does an edge establish?
	type est struct{ t, f string } // status established on true / false edge ("" = unknown, "!x" = not x, "absent")
	statusOfEdge := func(ifi *ssa.If) est {
		a := stripNot(ifi.Cond)
		// `ok` of a comma-ok lookup
		if ex, ok := a.Base.(*ssa.Extract); ok && ex.Index == 1 {
			if lk, ok := ex.Tuple.(*ssa.Lookup); ok && isStatusLookup(lk) {
				if a.Neg {
					return est{"absent", "present"}
				}
				return est{"present", "absent"}
			}
		}
		bo, ok := a.Base.(*ssa.BinOp)
		if !ok || (bo.Op != token.EQL && bo.Op != token.NEQ) || (!isStatusLookup(bo.X) && !isStatusLookup(bo.Y)) {
			return est{}
		}
		k, _ := bo.Y.(*ssa.Const)
		if k == nil {
			k, _ = bo.X.(*ssa.Const)
		}
		name := statusConstName(p, k)
		if name == "" {
			return est{}
		}
		eq := (bo.Op == token.EQL) != a.Neg
		if eq {
			return est{name, "!" + name}
		}
		return est{"!" + name, name}
	}
	cutFor := func(accept func(s string) bool) EdgeCut {
		return func(b *ssa.BasicBlock, ifi *ssa.If) (bool, bool) {
			e := statusOfEdge(ifi)
			return accept(e.t), accept(e.f)
		}
	}
	nAct, nDec, nInc := 0, 0, 0
	for _, f := range p.FuncsOfPkg("share/shwap/p2p/shrex/peers") {
		if f.Name() == "newPool" {
			continue
		}
		for _, b := range f.Blocks {
			for _, ins := range b.Instrs {
				switch x := ins.(type) {
				case *ssa.MapUpdate:
					fv := fieldOfAddr(x.Map)
					if fv == nil || fv.Name() != "statuses" {
						continue
					}
					k, _ := x.Value.(*ssa.Const)
					if statusConstName(p, k) != "active" {
						continue
					}
					nAct++
					c.SawFunc(f)
					res := gateWalk(p, f, map[*ssa.BasicBlock]bool{b: true}, cutFor(func(s string) bool {
						return s == "cooldown" || s == "removed" || s == "absent"
					}), nil)
					// `status != removed` false edge establishes removed; `!ok` establishes absent
					c.Ob("R17.6", "statuses[x]=active@"+fnName(f), !res.Reached, p.Pos(x.Pos()),
						"a peer is (re)activated only across a test establishing that it was on cool-down, removed or absent", res.Witness...)
				case *ssa.Store:
					fv := fieldOfAddr(x.Addr)
					if fv == nil || fv.Name() != "activeCount" {
						continue
					}
					bo, ok := x.Val.(*ssa.BinOp)
					if !ok {
						continue
					}
					k, _ := bo.Y.(*ssa.Const)
					if k == nil || k.Int64() != 1 {
						continue
					}
					c.SawFunc(f)
					switch bo.Op {
					case token.SUB:
						nDec++
						res := gateWalk(p, f, map[*ssa.BasicBlock]bool{b: true}, cutFor(func(s string) bool { return s == "active" }), nil)
						c.Ob("R17.7", "activeCount--@"+fnName(f), !res.Reached, p.Pos(x.Pos()), "decremented only across statuses[peer] == active", res.Witness...)
					case token.ADD:
						nInc++
						res := gateWalk(p, f, map[*ssa.BasicBlock]bool{b: true}, cutFor(func(s string) bool {
							return s == "cooldown" || s == "removed" || s == "absent" || s == "!active"
						}), nil)
						c.Ob("R17.7", "activeCount++@"+fnName(f), !res.Reached, p.Pos(x.Pos()), "incremented only across a test establishing the peer was not active", res.Witness...)
					}
				}
			}
		}
	}
	c.Floor("R17.6", "stores of status active", nAct, 2)
	c.Floor("R17.7", "activeCount decrements", nDec, 2)
	c.Floor("R17.7", "activeCount increments", nInc, 2)
	// afterCooldown is referenced only as the queue's callback
	ac := p.Func("share/shwap/p2p/shrex/peers", "pool", "afterCooldown")
	if ac == nil {
		c.Unresolved("R17.6", "(*pool).afterCooldown not found")
		return
	}
	direct := 0
	for _, f := range p.FuncsOfPkg("share/shwap/p2p/shrex/peers") {
		for _, b := range f.Blocks {
			for _, ins := range b.Instrs {
				if cl, ok := ins.(ssa.CallInstruction); ok && cl.Common().StaticCallee() == ac {
					direct++
					c.Ob("R17.6", "afterCooldown called directly@"+fnName(f), false, p.Pos(cl.Pos()), "cool-down is ended by something other than the timed queue's expiry")
				}
			}
		}
	}
	c.Ob("R17.6", "afterCooldown only as onPop", direct == 0, p.Pos(ac.Pos()), "no direct call of afterCooldown; it is reached only as the timed queue's expiry callback")
}

// c17BlacklistRemoves: with blacklisting enabled, a blacklisted peer leaves the
// general pool unconditionally - the removal must not depend on the outcome of
// blocking the peer in the connection gater or of closing its connections.
func c17BlacklistRemoves(c *Check) {
	p := c.P
	fn := p.Func("share/shwap/p2p/shrex/peers", "Manager", "blacklistPeers")
	if fn == nil {
		c.Unresolved("R17.5", "Manager.blacklistPeers not found")
		return
	}
	c.SawFunc(fn)
	var enabled *ssa.BasicBlock
	for _, b := range fn.Blocks {
		ifi, ok := b.Instrs[len(b.Instrs)-1].(*ssa.If)
		if !ok {
			continue
		}
		a := stripNot(ifi.Cond)
		if f := fieldOfAddr(a.Base); f != nil && f.Name() == "EnableBlackListing" {
			enabled = b.Succs[0]
			if a.Neg {
				enabled = b.Succs[1]
			}
		}
	}
	if enabled == nil {
		c.Ob("R17.5", "blacklistPeers: enabled branch", false, p.Pos(fn.Pos()), "blacklistPeers branches on EnableBlackListing")
		return
	}
	removes := blocksWhere(fn, func(ins ssa.Instruction) bool {
		g, ok := ins.(*ssa.Call)
		if !ok || g.Call.StaticCallee() == nil || g.Call.StaticCallee().Name() != "remove" || len(g.Call.Args) == 0 {
			return false
		}
		f := fieldOfAddr(g.Call.Args[0])
		return f != nil && f.Name() == "nodes"
	})
	if removes[enabled] {
		c.Ob("R17.5", "blacklistPeers removes from the general pool unconditionally", true, p.Pos(fn.Pos()), "the removal is the first thing done on the enabled side")
		return
	}
	// every way out of this iteration (next iteration or return) passes the removal
	targets := map[*ssa.BasicBlock]bool{}
	for _, b := range fn.Blocks {
		if b.Comment == "rangeindex.loop" || b.Comment == "rangeiter.loop" {
			targets[b] = true
		}
	}
	for _, r := range returnsOf(fn) {
		targets[r.Block()] = true
	}
	res := gateWalkOpts(p, fn, targets, nil, enabled, removes)
	c.Ob("R17.5", "blacklistPeers removes from the general pool unconditionally", len(removes) > 0 && !res.Reached, p.Pos(fn.Pos()),
		"with blacklisting enabled every path through an iteration passes nodes.remove(peer): it does not depend on BlockPeer or ClosePeer succeeding", res.Witness...)
}

// c17CooldownEntries (R17.8): a pending cool-down entry and the status `cooldown`
// go together. The only way out of `cooldown` that keeps the queue entry is its
// own expiry (afterCooldown). Every other status change of a peer whose previous
// status may be `cooldown` must drop the pending entry from the timed queue;
// otherwise, when the peer is added and put on cool-down again, the expiry of the
// earlier entry re-activates it before the later cool-down has elapsed.
func c17CooldownEntries(c *Check) {
	p := c.P
	c.Rule("R17.8", "a peer leaves cool-down only by expiry, or its pending cool-down entry is dropped with the status change")
	qrm := p.Func("share/shwap/p2p/shrex/peers", "timedQueue", "remove")
	n := 0
	for _, f := range p.FuncsOfPkg("share/shwap/p2p/shrex/peers") {
		if recvName(rootFunc(f)) != "pool" || f.Name() == "afterCooldown" {
			continue
		}
		for _, b := range f.Blocks {
			for _, ins := range b.Instrs {
				mu, ok := ins.(*ssa.MapUpdate)
				if !ok {
					continue
				}
				fld := fieldOfAddr(mu.Map)
				if fld == nil || fld.Name() != "statuses" {
					continue
				}
				k, isK := mu.Value.(*ssa.Const)
				if !isK || statusConstName(p, k) == "cooldown" {
					continue
				}
				n++
				c.SawFunc(f)
				// discharged on edges that establish "previous status is not cooldown"
				notCooldown := func(bb *ssa.BasicBlock, ifi *ssa.If) (bool, bool) {
					a := stripNot(ifi.Cond)
					// `ok` of the status lookup: an absent peer has no status at all
					if ex, isEx := a.Base.(*ssa.Extract); isEx && ex.Index == 1 {
						if lk, isLk := ex.Tuple.(*ssa.Lookup); isLk && isStatusLookup(lk) {
							// cut the edge on which ok is false
							return a.Neg, !a.Neg
						}
					}
					bo, ok := a.Base.(*ssa.BinOp)
					if !ok || (bo.Op != token.EQL && bo.Op != token.NEQ) {
						return false, false
					}
					var kk *ssa.Const
					var other ssa.Value
					if x, ok := bo.X.(*ssa.Const); ok {
						kk, other = x, bo.Y
					} else if y, ok := bo.Y.(*ssa.Const); ok {
						kk, other = y, bo.X
					}
					name := statusConstName(p, kk)
					if name == "" || !isStatusLookup(other) {
						return false, false
					}
					eqOnTrue := (bo.Op == token.EQL) != a.Neg
					if name == "cooldown" {
						// the edge on which status != cooldown
						return !eqOnTrue, eqOnTrue
					}
					// status == <other constant> implies not cooldown
					return eqOnTrue, !eqOnTrue
				}
				drops := blocksWhere(f, func(i2 ssa.Instruction) bool {
					g, ok := i2.(*ssa.Call)
					return ok && qrm != nil && g.Call.StaticCallee() == qrm
				})
				// (1) was the previous status possibly cooldown when the store is reached?
				reach := gateWalk(p, f, map[*ssa.BasicBlock]bool{b: true}, notCooldown, nil)
				if !reach.Reached {
					c.Ob("R17.8", fmt.Sprintf("%s: statuses[x]=%s", fnName(f), statusConstName(p, k)), true, p.Pos(mu.Pos()), "reached only when the previous status is not cooldown")
					continue
				}
				// (2) then every way on from the store passes the drop of the pending entry,
				// or an edge that establishes that the previous status was not cooldown
				targets := map[*ssa.BasicBlock]bool{}
				for _, r := range returnsOf(f) {
					targets[r.Block()] = true
				}
				for _, bb := range f.Blocks {
					if (bb.Comment == "rangeindex.loop" || bb.Comment == "rangeiter.loop") && bb != b {
						targets[bb] = true
					}
				}
				if drops[b] {
					c.Ob("R17.8", fmt.Sprintf("%s: statuses[x]=%s", fnName(f), statusConstName(p, k)), true, p.Pos(mu.Pos()), "the pending cool-down entry is dropped in the same block")
					continue
				}
				res := gateWalkFrom(p, f, b, targets, notCooldown, drops)
				c.Ob("R17.8", fmt.Sprintf("%s: statuses[x]=%s", fnName(f), statusConstName(p, k)), !res.Reached, p.Pos(mu.Pos()),
					"when the previous status may be cooldown, the status change is followed on every path by cooldown.remove(peer) (a stale entry would re-activate the peer ahead of a later cool-down)", res.Witness...)
			}
		}
	}
	c.Floor("R17.8", "status changes outside afterCooldown", n, 2)
}
