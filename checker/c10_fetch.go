package main

import (
	"golang.org/x/tools/go/ssa"
)

// c10FetchVerdict: besides the hasher path, bitswap's fetch re-verifies a block
// itself when the same CID is being fetched concurrently (`unmarshal` with the
// block's UnmarshalFn). A failure of that verification must end the fetch with a
// panic or with an error derived from it; if the loop just goes on, Fetch returns
// ctx.Err() == nil with the block left unpopulated and the getter reports success
// with missing data.
func c10FetchVerdict(c *Check, rule string) {
	p := c.P
	fetch := p.Func("share/shwap/p2p/bitswap", "", "fetch")
	unm := p.Func("share/shwap/p2p/bitswap", "", "unmarshal")
	if fetch == nil || unm == nil {
		c.Unresolved(rule, "bitswap.fetch / bitswap.unmarshal not found")
		return
	}
	c.SawFunc(fetch)
	n := 0
	for _, b := range fetch.Blocks {
		for _, ins := range b.Instrs {
			g, ok := ins.(*ssa.Call)
			if !ok || g.Call.StaticCallee() != unm {
				continue
			}
			n++
			_, failS := errEdgesOfCall(fetch, g)
			if len(failS) == 0 {
				c.Ob(rule, "fetch: verification of a concurrently fetched block", false, p.Pos(g.Pos()), "the verdict of unmarshal is not tested")
				continue
			}
			bad := map[*ssa.BasicBlock]bool{}
			for _, r := range returnsOf(fetch) {
				carries := false
				for _, rv := range r.Results {
					if isErrorType(rv.Type()) && backSlice(rv, SliceOpt{CallArgs: true, PhiControl: true}).Vals[g] {
						carries = true
					}
				}
				if !carries {
					bad[r.Block()] = true
				}
			}
			for _, s := range failS {
				res := gateWalk(p, fetch, bad, nil, s)
				c.Ob(rule, "fetch: verification of a concurrently fetched block", !res.Reached, p.Pos(g.Pos()),
					"after this verification failed the fetch ends in a panic or returns that error; it never goes on to return the context's (possibly nil) error with the block unpopulated", res.Witness...)
			}
		}
	}
	c.Floor(rule, "in-fetch verifications", n, 1)
}
