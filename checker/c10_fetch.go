package main

import (
	"golang.org/x/tools/go/ssa"
)

// c10FetchVerdict: besides the hasher path, bitswap's fetch re-verifies a block
// itself when the same CID is being fetched concurrently (`unmarshal` with the
// block's UnmarshalFn). A failure of that verification must end the fetch with a
// panic or with an error derived from it; if the loop just goes on, Fetch returns
// ctx.Err() == nil with the block left unpopulated and the getter reports success
// with missing data.
func c10FetchVerdict(c *Check, rule string) {
	p := c.P
	fetch := p.Func("share/shwap/p2p/bitswap", "", "fetch")
	unm := p.Func("share/shwap/p2p/bitswap", "", "unmarshal")
	if fetch == nil || unm == nil {
		c.Unresolved(rule, "bitswap.fetch / bitswap.unmarshal not found")
		return
	}
	c.SawFunc(fetch)
	n := 0
	for _, b := range fetch.Blocks {
		for _, ins := range b.Instrs {
			g, ok := ins.(*ssa.Call)
			if !ok || g.Call.StaticCallee() != unm {
				continue
			}
			n++
			_, failS := errEdgesOfCall(fetch, g)
			if len(failS) == 0 {
				c.Ob(rule, "fetch: verification of a concurrently fetched block", false, p.Pos(g.Pos()), "the verdict of unmarshal is not tested")
				continue
			}
			bad := map[*ssa.BasicBlock]bool{}
			for _, r := range returnsOf(fetch) {
				carries := false
				for _, rv := range r.Results {
					if isErrorType(rv.Type()) && backSlice(rv, SliceOpt{CallArgs: true, PhiControl: true}).Vals[g] {
						carries = true
					}
				}
				if !carries {
					bad[r.Block()] = true
				}
			}
			for _, s := range failS {
				res := gateWalk(p, fetch, bad, nil, s)
				c.Ob(rule, "fetch: verification of a concurrently fetched block", !res.Reached, p.Pos(g.Pos()),
					"after this verification failed the fetch ends in a panic or returns that error; it never goes on to return the context's (possibly nil) error with the block unpopulated", res.Witness...)
			}
		}
	}
	c.Floor(rule, "in-fetch verifications", n, 1)
}

// c10HasherBinding (R10.6): the receiver recomputes a block's CID with the
// multihash code and length the SENDER put into the prefix; the hasher registered
// for that code runs the verification and returns the inner ID as the digest,
// which go-multihash truncates to the sender's length. The hasher must therefore
// refuse a block whose inner CID is of another block type, or the ID of that
// other type, truncated, satisfies a request its bytes never populate
// (SampleID is RowID plus two bytes; SampleID and the V0 range ID are both 12
// bytes). Decided: hasher.write sets the digest only across a rejecting
// comparison of the inner CID's multihash type with a field of the hasher, and
// registerBlock fills that field from the multihash code it registers.
func c10HasherBinding(c *Check, rule string) {
	p := c.P
	w := p.Func("share/shwap/p2p/bitswap", "hasher", "write")
	reg := p.Func("share/shwap/p2p/bitswap", "", "registerBlock")
	if w == nil || reg == nil {
		c.Unresolved(rule, "bitswap hasher.write / registerBlock not found")
		return
	}
	c.SawFunc(w)
	c.SawFunc(reg)
	var boundField string
	cut, gates := failGates(w, func(cond ssa.Value, _ *Slice) bool {
		x, y, ok := comparisonOperands(cond)
		if !ok {
			return false
		}
		side := func(v ssa.Value) (isType bool, field string) {
			sl := backSlice(v, SliceOpt{CallArgs: true})
			if sl.HasFieldNamed("Prefix", "MhType") {
				isType = true
			}
			for val := range sl.Vals {
				if fa, ok := val.(*ssa.FieldAddr); ok && ownerName(fa) == "hasher" && fieldOf(fa) != nil {
					field = fieldOf(fa).Name()
				}
			}
			return
		}
		tx, fx := side(x)
		ty, fy := side(y)
		if tx && fy != "" && !ty {
			boundField = fy
			return true
		}
		if ty && fx != "" && !tx {
			boundField = fx
			return true
		}
		return false
	})
	// the digest is set / success returned only across that gate
	targets := blocksOfReturns(successReturns(w))
	for _, b := range w.Blocks {
		for _, ins := range b.Instrs {
			if st, ok := ins.(*ssa.Store); ok {
				if fa, ok := st.Addr.(*ssa.FieldAddr); ok && ownerName(fa) == "hasher" && fieldOf(fa) != nil && fieldOf(fa).Name() == "sum" {
					targets[b] = true
				}
			}
		}
	}
	res := gateWalk(p, w, targets, cut, nil)
	c.Ob(rule, "hasher refuses blocks of another type", len(gates) > 0 && !res.Reached, p.Pos(w.Pos()),
		"the digest is produced only across a rejecting comparison of the inner CID's multihash type with the code the hasher is registered for", res.Witness...)
	// the field is filled from the registered code
	okReg := false
	if boundField != "" {
		var codeP *ssa.Parameter
		for _, pr := range reg.Params {
			if pr.Name() == "mhcode" {
				codeP = pr
			}
		}
		for _, f := range append([]*ssa.Function{reg}, Closures(reg)...) {
			for _, b := range f.Blocks {
				for _, ins := range b.Instrs {
					st, ok := ins.(*ssa.Store)
					if !ok {
						continue
					}
					fa, ok := st.Addr.(*ssa.FieldAddr)
					if !ok || ownerName(fa) != "hasher" || fieldOf(fa) == nil || fieldOf(fa).Name() != boundField {
						continue
					}
					sl := backSlice(st.Val, SliceOpt{ThroughFreeVars: true})
					if codeP != nil && (sl.Vals[codeP] || sl.HasParam(reg, "mhcode")) {
						okReg = true
					}
				}
			}
		}
	}
	c.Ob(rule, "hasher is registered with its own multihash code", okReg, p.Pos(reg.Pos()), "registerBlock stores the multihash code it registers into the hasher field the comparison uses")
}

// c09AccessorOutlivesCopy (R9.1): the response reader may read from the accessor lazily
// (the whole-square reader pulls rows during io.Copy), so the accessor must stay open until
// the response has been written: no non-deferred release of the accessor is followed by the
// copy of the response to the stream.
func c09AccessorOutlivesCopy(c *Check) {
	p := c.P
	h := p.Func("share/shwap/p2p/shrex", "Server", "handleDataRequest")
	if h == nil {
		return
	}
	var acq *ssa.Call
	for _, b := range h.Blocks {
		for _, ins := range b.Instrs {
			if g, ok := ins.(*ssa.Call); ok && g.Call.IsInvoke() && g.Call.Method.Name() == "GetByHeight" {
				acq = g
			}
		}
	}
	if acq == nil {
		return
	}
	var file ssa.Value = acq
	for _, ref := range *acq.Referrers() {
		if ex, ok := ref.(*ssa.Extract); ok && ex.Index == 0 {
			file = ex
		}
	}
	copies := blocksWhere(h, func(ins ssa.Instruction) bool {
		g, ok := ins.(*ssa.Call)
		if !ok {
			return false
		}
		o := calleeObj(&g.Call)
		return o != nil && pkgPathOf(o) == "io" && (o.Name() == "Copy" || o.Name() == "CopyN" || o.Name() == "CopyBuffer")
	})
	c.Floor("R9.1", "copies of the response to the stream", len(copies), 1)
	ok := true
	var wit []string
	for _, b := range h.Blocks {
		for _, ins := range b.Instrs {
			if _, isDefer := ins.(*ssa.Defer); isDefer {
				continue
			}
			if !isReleaseOf(p, ins, file, "Close") {
				continue
			}
			// a release that is not deferred: the copy must not be reachable afterwards
			if copies[b] {
				// same block: is the copy after the release?
				after := false
				seen := false
				for _, i2 := range b.Instrs {
					if i2 == ins {
						seen = true
					}
					if g, isCall := i2.(*ssa.Call); isCall && seen {
						if o := calleeObj(&g.Call); o != nil && pkgPathOf(o) == "io" && o.Name() == "Copy" {
							after = true
						}
					}
				}
				if after {
					ok = false
					wit = []string{"release and copy in block " + p.Pos(ins.Pos())}
				}
				continue
			}
			if res := gateWalkFrom(p, h, b, copies, nil, nil); res.Reached {
				ok = false
				wit = res.Witness
			}
		}
	}
	c.Ob("R9.1", "accessor stays open until the response is written", ok, p.Pos(h.Pos()),
		"no non-deferred release of the accessor is followed by the copy of the (possibly lazy) response reader to the stream", wit...)
}
