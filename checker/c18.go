package main

import (
	"fmt"
	"go/ast"
	"go/constant"
	"go/token"
	"go/types"
	"sort"
	"strings"

	"golang.org/x/tools/go/packages"
	"golang.org/x/tools/go/ssa"
)

func init() {
	register("C18", runC18,
		"Structural necessary conditions of 'identifiers survive the wire or are refused'. R18.1 layout agreement: for every shwap ID type with an AppendBinary/appendTo encoder and a <T>FromBinary decoder, the encoder's field sequence with widths (AppendUintN, nested AppendBinary, appended namespace bytes) equals the decoder's (UintN(data[a:b]), nested FromBinary(data[:k]), NewNamespaceFromBytes(data[k:])), decoder offsets are contiguous from 0, and the total equals the <T>Size constant used by the decoder's length test and by ReadFrom's buffer. R18.2 no silent narrowing: for every uintN(field) conversion in an encoder the field's upper bound is taken from the comparison in the type's own Verify (field >= E / field > E rejecting), E is evaluated with every size parameter at the protocol maximum (2*share.MaxSquareSize), and max < 2^N is required. R18.3: every FromBinary decoder returns a value without error only behind its length test and behind a successful Validate() of the value (sibling rule: all decoders of types that have Validate call it). R18.4: explicit panics reachable from the decoder entry points of shwap, bitswap and shrexsub (UnmarshalJSON, ReadFrom, *FromBinary, *FromProto, hasher.Write) are enumerated with their call path. R18.6: proto converters test their pointer argument for nil before use. Not decided: decode(encode(x)) == x on values; JSON/proto byte-level behaviour.",
		"every size parameter of an ID's Verify method is at most 2*share.MaxSquareSize (EDS width); ODS-width parameters are smaller, so the bound is conservative")
}

type layoutStep struct {
	kind  string // "uint", "nested", "ns"
	width int64
	field string
	typ   string // nested type name
	off   int64  // decoder only
	end   int64  // decoder only (-1 = open)
	pos   token.Pos
	conv  *ast.CallExpr // encoder: the uintN(...) conversion
	order string        // uint steps: byte order type (bigEndian / littleEndian)
}

func (s layoutStep) String() string {
	switch s.kind {
	case "nested":
		return fmt.Sprintf("%s(%d)", s.typ, s.width)
	case "ns":
		return fmt.Sprintf("ns:%s(%d)", s.field, s.width)
	}
	return fmt.Sprintf("%s:u%d", s.field, s.width*8)
}

type idCodec struct {
	name     string
	named    *types.Named
	enc      *ast.FuncDecl
	dec      *ast.FuncDecl
	readFrom *ast.FuncDecl
	size     int64
	sizeOK   bool
}

func runC18(c *Check) {
	p := c.P
	c.Rule("R18.1", "encoder/decoder layout agreement per ID type; contiguous offsets; total == Size constant == ReadFrom buffer")
	c.Rule("R18.2", "no silent narrowing: protocol maximum of every uintN-converted field fits N bits")
	c.Rule("R18.3", "decoders return a value only behind the length test and a successful Validate")
	c.Rule("R18.4", "explicit panics reachable from decoder entry points")
	c.Rule("R18.6", "proto converters nil-check their argument before use")
	pk := p.Pkg("share/shwap")
	if pk == nil {
		c.Unresolved("R18.1", "package share/shwap not loaded")
		return
	}
	codecs := c18Codecs(c, pk)
	c.Floor("R18.1", "ID types with encoder/decoder pair", len(codecs), 7)
	nsSize := c18ConstInt(p, "github.com/celestiaorg/go-square/v4/share", "NamespaceSize")
	if nsSize <= 0 {
		c.Unresolved("R18.1", "libshare.NamespaceSize not resolved")
		return
	}
	byName := map[string]*idCodec{}
	for _, k := range codecs {
		byName[k.name] = k
	}
	for _, k := range codecs {
		c18Layout(c, pk, k, byName, nsSize)
		c18Narrowing(c, pk, k)
	}
	c18DecodersValidate(c, pk, codecs)
	c18Panics(c)
	c18ProtoNil(c, pk)
	c18StreamProofs(c)
	c18CleanEOF(c)
}

func c18ConstInt(p *Program, pkgPath, name string) int64 {
	for _, pk := range p.Pkgs {
		for _, imp := range pk.Types.Imports() {
			if imp.Path() == pkgPath {
				if k, ok := imp.Scope().Lookup(name).(*types.Const); ok {
					if v, ok := constant.Int64Val(k.Val()); ok {
						return v
					}
				}
			}
		}
	}
	return -1
}

func c18Codecs(c *Check, pk *packages.Package) []*idCodec {
	p := c.P
	decls := map[string]*ast.FuncDecl{}   // package functions
	methods := map[string]*ast.FuncDecl{} // "T.M"
	for _, f := range pk.Syntax {
		if p.IsTestPos(f.Pos()) {
			continue
		}
		for _, d := range f.Decls {
			fd, ok := d.(*ast.FuncDecl)
			if !ok || fd.Body == nil {
				continue
			}
			if fd.Recv == nil {
				decls[fd.Name.Name] = fd
				continue
			}
			t := pk.TypesInfo.TypeOf(fd.Recv.List[0].Type)
			if n := derefNamed(t); n != nil {
				methods[n.Obj().Name()+"."+fd.Name.Name] = fd
			}
		}
	}
	var out []*idCodec
	for name, fd := range decls {
		if !strings.HasSuffix(name, "FromBinary") {
			continue
		}
		tn := strings.TrimSuffix(name, "FromBinary")
		obj, ok := pk.Types.Scope().Lookup(tn).(*types.TypeName)
		if !ok {
			continue
		}
		named, _ := obj.Type().(*types.Named)
		if named == nil {
			continue
		}
		k := &idCodec{name: tn, named: named, dec: fd}
		// the encoder: appendTo if declared on T, else AppendBinary declared on T
		if m := methods[tn+".appendTo"]; m != nil {
			k.enc = m
		} else if m := methods[tn+".AppendBinary"]; m != nil {
			k.enc = m
		}
		k.readFrom = methods[tn+".ReadFrom"]
		if k.enc == nil {
			c.Ob("R18.1", tn+":encoder", false, p.Pos(fd.Pos()), "decoder without an encoder declared on the type")
			continue
		}
		out = append(out, k)
	}
	sort.Slice(out, func(i, j int) bool { return out[i].name < out[j].name })
	return out
}

func constOf(pk *packages.Package, e ast.Expr) (int64, bool) {
	if e == nil {
		return 0, false
	}
	tv, ok := pk.TypesInfo.Types[e]
	if !ok || tv.Value == nil {
		return 0, false
	}
	return constant.Int64Val(constant.ToInt(tv.Value))
}

func calleeOfExpr(pk *packages.Package, call *ast.CallExpr) *types.Func {
	var id *ast.Ident
	switch f := ast.Unparen(call.Fun).(type) {
	case *ast.Ident:
		id = f
	case *ast.SelectorExpr:
		id = f.Sel
	default:
		return nil
	}
	fn, _ := pk.TypesInfo.Uses[id].(*types.Func)
	return fn
}

func isDataSlice(pk *packages.Package, e ast.Expr, dataObj types.Object) (*ast.SliceExpr, bool) {
	se, ok := ast.Unparen(e).(*ast.SliceExpr)
	if !ok {
		return nil, false
	}
	id, ok := ast.Unparen(se.X).(*ast.Ident)
	if !ok || pk.TypesInfo.Uses[id] != dataObj {
		return nil, false
	}
	return se, true
}

var uintWidth = map[string]int64{"Uint16": 2, "Uint32": 4, "Uint64": 8, "AppendUint16": 2, "AppendUint32": 4, "AppendUint64": 8}

func selectorField(pk *packages.Package, e ast.Expr) string {
	e = ast.Unparen(e)
	if call, ok := e.(*ast.CallExpr); ok && len(call.Args) == 1 {
		// conversion uintN(x) / int(x)
		if tv, ok := pk.TypesInfo.Types[call.Fun]; ok && tv.IsType() {
			return selectorField(pk, call.Args[0])
		}
	}
	if se, ok := e.(*ast.SelectorExpr); ok {
		if sel := pk.TypesInfo.Selections[se]; sel != nil && sel.Kind() == types.FieldVal {
			return sel.Obj().Name()
		}
	}
	return ""
}

func c18EncoderSteps(c *Check, pk *packages.Package, k *idCodec, nsSize int64) []layoutStep {
	var steps []layoutStep
	ast.Inspect(k.enc.Body, func(n ast.Node) bool {
		call, ok := n.(*ast.CallExpr)
		if !ok {
			return true
		}
		if id, ok := call.Fun.(*ast.Ident); ok && id.Name == "append" && call.Ellipsis.IsValid() && len(call.Args) == 2 {
			// append(data, x.F.Bytes()...)
			if inner, ok := call.Args[1].(*ast.CallExpr); ok {
				if se, ok := inner.Fun.(*ast.SelectorExpr); ok && se.Sel.Name == "Bytes" {
					steps = append(steps, layoutStep{kind: "ns", width: nsSize, field: selectorField(pk, se.X), pos: call.Pos()})
				}
			}
			return true
		}
		fn := calleeOfExpr(pk, call)
		if fn == nil {
			return true
		}
		if w, ok := uintWidth[fn.Name()]; ok && pkgPathOf(fn) == "encoding/binary" && strings.HasPrefix(fn.Name(), "Append") && len(call.Args) == 2 {
			arg := c18ResolveLocal(pk, k.enc.Body, call.Args[1])
			st := layoutStep{kind: "uint", width: w, field: selectorField(pk, arg), pos: call.Pos(), order: c18Order(fn)}
			if cv, ok := ast.Unparen(arg).(*ast.CallExpr); ok {
				st.conv = cv
			}
			steps = append(steps, st)
			return true
		}
		if fn.Name() == "AppendBinary" && pkgPathOf(fn) == pkgShwap {
			if rn := recvNamed(fn); rn != nil && rn != k.named || (rn == k.named && k.enc.Name.Name != "AppendBinary") {
				steps = append(steps, layoutStep{kind: "nested", typ: rn.Obj().Name(), pos: call.Pos()})
			}
		}
		return true
	})
	sort.SliceStable(steps, func(i, j int) bool { return steps[i].pos < steps[j].pos })
	return steps
}

func c18DecoderSteps(c *Check, pk *packages.Package, k *idCodec, nsSize int64) (steps []layoutStep, lenConst int64, haveLen bool) {
	if k.dec.Type.Params == nil || len(k.dec.Type.Params.List) != 1 || len(k.dec.Type.Params.List[0].Names) != 1 {
		return nil, 0, false
	}
	dataObj := pk.TypesInfo.Defs[k.dec.Type.Params.List[0].Names[0]]
	// which variable carries the namespace into which field
	nsField := ""
	if st, ok := k.named.Underlying().(*types.Struct); ok {
		for i := 0; i < st.NumFields(); i++ {
			if n := derefNamed(st.Field(i).Type()); n != nil && n.Obj().Name() == "Namespace" {
				nsField = st.Field(i).Name()
			}
		}
	}
	ast.Inspect(k.dec.Body, func(n ast.Node) bool {
		switch x := n.(type) {
		case *ast.BinaryExpr:
			if x.Op == token.NEQ || x.Op == token.EQL || x.Op == token.LSS {
				if call, ok := ast.Unparen(x.X).(*ast.CallExpr); ok {
					if id, ok := call.Fun.(*ast.Ident); ok && id.Name == "len" && len(call.Args) == 1 {
						if aid, ok := call.Args[0].(*ast.Ident); ok && pk.TypesInfo.Uses[aid] == dataObj && x.Op == token.NEQ {
							if v, ok := constOf(pk, x.Y); ok {
								lenConst, haveLen = v, true
							}
						}
					}
				}
			}
		case *ast.CallExpr:
			fn := calleeOfExpr(pk, x)
			if fn == nil || len(x.Args) != 1 {
				return true
			}
			se, ok := isDataSlice(pk, x.Args[0], dataObj)
			if !ok {
				// the whole buffer: f(data)
				if id, isID := ast.Unparen(x.Args[0]).(*ast.Ident); isID && pk.TypesInfo.Uses[id] == dataObj {
					se, ok = &ast.SliceExpr{X: id}, true
				}
			}
			if !ok {
				return true
			}
			lo, hi := int64(0), int64(-1)
			if se.Low != nil {
				v, ok := constOf(pk, se.Low)
				if !ok {
					lo = -1
				} else {
					lo = v
				}
			}
			if se.High != nil {
				if v, ok := constOf(pk, se.High); ok {
					hi = v
				} else {
					hi = -2
				}
			}
			switch {
			case pkgPathOf(fn) == "encoding/binary" && uintWidth[fn.Name()] > 0:
				steps = append(steps, layoutStep{kind: "uint", width: uintWidth[fn.Name()], off: lo, end: hi, pos: x.Pos(), order: c18Order(fn)})
			case strings.HasSuffix(fn.Name(), "FromBinary") && pkgPathOf(fn) == pkgShwap:
				steps = append(steps, layoutStep{kind: "nested", typ: strings.TrimSuffix(fn.Name(), "FromBinary"), off: lo, end: hi, pos: x.Pos()})
			case fn.Name() == "NewNamespaceFromBytes":
				steps = append(steps, layoutStep{kind: "ns", width: nsSize, field: nsField, off: lo, end: hi, pos: x.Pos()})
			}
		case *ast.KeyValueExpr:
			// Field: int(binary.BigEndian.UintN(data[a:b]))
			key, ok := x.Key.(*ast.Ident)
			if !ok {
				return true
			}
			var inner *ast.CallExpr
			ast.Inspect(x.Value, func(m ast.Node) bool {
				if cc, ok := m.(*ast.CallExpr); ok {
					if fn := calleeOfExpr(pk, cc); fn != nil && pkgPathOf(fn) == "encoding/binary" && uintWidth[fn.Name()] > 0 {
						inner = cc
					}
				}
				return true
			})
			if inner != nil {
				for i := range steps {
					if steps[i].pos == inner.Pos() {
						steps[i].field = key.Name
					}
				}
				// the step may not have been appended yet (Inspect is pre-order: KeyValue first)
				defer func(pos token.Pos, name string) {
					for i := range steps {
						if steps[i].pos == pos {
							steps[i].field = name
						}
					}
				}(inner.Pos(), key.Name)
			}
		}
		return true
	})
	sort.SliceStable(steps, func(i, j int) bool { return steps[i].off < steps[j].off })
	return steps, lenConst, haveLen
}

func c18Layout(c *Check, pk *packages.Package, k *idCodec, all map[string]*idCodec, nsSize int64) {
	p := c.P
	enc := c18EncoderSteps(c, pk, k, nsSize)
	dec, lenConst, haveLen := c18DecoderSteps(c, pk, k, nsSize)
	// fix up KeyValue fields recorded before the call step existed
	ast.Inspect(k.dec.Body, func(n ast.Node) bool {
		kv, ok := n.(*ast.KeyValueExpr)
		if !ok {
			return true
		}
		key, ok := kv.Key.(*ast.Ident)
		if !ok {
			return true
		}
		ast.Inspect(kv.Value, func(m ast.Node) bool {
			if cc, ok := m.(*ast.CallExpr); ok {
				for i := range dec {
					if dec[i].pos == cc.Pos() && dec[i].kind == "uint" {
						dec[i].field = key.Name
					}
				}
			}
			return true
		})
		return true
	})
	k.size, k.sizeOK = lenConst, haveLen
	c.Ob("R18.1", k.name+":length test", haveLen, p.Pos(k.dec.Pos()), fmt.Sprintf("decoder rejects len(data) != %d", lenConst))
	if !haveLen {
		return
	}
	sizeOfNested := func(tn string) (int64, bool) {
		n := all[tn]
		if n == nil {
			return 0, false
		}
		if !n.sizeOK {
			_, l, ok := c18DecoderSteps(c, pk, n, nsSize)
			n.size, n.sizeOK = l, ok
		}
		return n.size, n.sizeOK
	}
	for i := range enc {
		if enc[i].kind == "nested" {
			enc[i].width, _ = sizeOfNested(enc[i].typ)
		}
	}
	okOff := true
	var off int64
	for i := range dec {
		if dec[i].kind == "nested" {
			dec[i].width, _ = sizeOfNested(dec[i].typ)
		}
		if dec[i].off != off {
			okOff = false
		}
		end := dec[i].off + dec[i].width
		if dec[i].end >= 0 && dec[i].end != end {
			okOff = false
		}
		if dec[i].end == -2 {
			okOff = false
		}
		if dec[i].end == -1 && i != len(dec)-1 {
			okOff = false // open-ended slice only for the last field
		}
		off = end
	}
	var es, ds []string
	for _, s := range enc {
		es = append(es, s.String())
	}
	for _, s := range dec {
		ds = append(ds, s.String())
	}
	same := len(enc) == len(dec)
	if same {
		for i := range enc {
			if enc[i].kind != dec[i].kind || enc[i].width != dec[i].width || enc[i].field != dec[i].field || enc[i].typ != dec[i].typ || enc[i].order != dec[i].order {
				same = false
			}
		}
	}
	c.Ob("R18.1", k.name+":layout", same && len(enc) > 0, p.Pos(k.enc.Pos()), fmt.Sprintf("encoder %v == decoder %v", es, ds))
	c.Ob("R18.1", k.name+":offsets", okOff && off == lenConst, p.Pos(k.dec.Pos()), fmt.Sprintf("decoder slices are contiguous from 0 and end at %d == size constant %d", off, lenConst))
	// ReadFrom buffer and MarshalBinary capacity use the same constant
	if k.readFrom != nil {
		found, good := false, true
		ast.Inspect(k.readFrom.Body, func(n ast.Node) bool {
			call, ok := n.(*ast.CallExpr)
			if !ok {
				return true
			}
			if id, ok := call.Fun.(*ast.Ident); ok && id.Name == "make" && len(call.Args) == 2 {
				if v, ok := constOf(pk, call.Args[1]); ok {
					found = true
					if v != lenConst {
						good = false
					}
				}
			}
			return true
		})
		c.Ob("R18.1", k.name+":ReadFrom buffer", found && good, p.Pos(k.readFrom.Pos()), fmt.Sprintf("ReadFrom reads exactly %d bytes", lenConst))
	}
}

// ---- R18.2 ----

func c18Narrowing(c *Check, pk *packages.Package, k *idCodec) {
	p := c.P
	maxSq := c18MaxSquare(c)
	if maxSq <= 0 {
		c.Unresolved("R18.2", "share.MaxSquareSize not resolved to a constant")
		return
	}
	sizeMax := 2 * maxSq
	enc := c18EncoderSteps(c, pk, k, 0)
	for _, s := range enc {
		if s.kind != "uint" || s.conv == nil || s.field == "" {
			continue
		}
		// source type of the conversion operand
		argT := pk.TypesInfo.TypeOf(s.conv.Args[0])
		if b, ok := argT.Underlying().(*types.Basic); ok {
			if sz := basicBits(b); sz > 0 && sz <= int(s.width*8) && b.Info()&types.IsUnsigned != 0 {
				c.Ob("R18.2", k.name+"."+s.field, true, p.Pos(s.conv.Pos()), "conversion does not narrow")
				continue
			}
		}
		bound, expr, ok := c18FieldBound(c, pk, s.field, sizeMax, k.enc)
		limit := int64(1) << uint(s.width*8)
		if s.width >= 8 {
			c.Ob("R18.2", k.name+"."+s.field, true, p.Pos(s.conv.Pos()), "64-bit encoding of a non-negative int")
			continue
		}
		if !ok {
			c.Ob("R18.2", k.name+"."+s.field, false, p.Pos(s.conv.Pos()), fmt.Sprintf("field narrowed to %d bits but no rejecting upper-bound comparison found in a Verify method", s.width*8))
			continue
		}
		c.Ob("R18.2", k.name+"."+s.field, bound < limit, p.Pos(s.conv.Pos()),
			fmt.Sprintf("max %s = %d (bound %s with size parameters at 2*MaxSquareSize=%d) must be < 2^%d = %d", s.field, bound, expr, sizeMax, s.width*8, limit))
	}
}

func basicBits(b *types.Basic) int {
	switch b.Kind() {
	case types.Uint8, types.Int8:
		return 8
	case types.Uint16, types.Int16:
		return 16
	case types.Uint32, types.Int32:
		return 32
	case types.Uint64, types.Int64, types.Int, types.Uint:
		return 64
	}
	return 0
}

func c18MaxSquare(c *Check) int64 {
	pk := c.P.Pkg("share")
	if pk == nil {
		return -1
	}
	for _, f := range pk.Syntax {
		for _, d := range f.Decls {
			gd, ok := d.(*ast.GenDecl)
			if !ok {
				continue
			}
			for _, sp := range gd.Specs {
				vs, ok := sp.(*ast.ValueSpec)
				if !ok {
					continue
				}
				for i, n := range vs.Names {
					if n.Name == "MaxSquareSize" && i < len(vs.Values) {
						if v, ok := constOf(pk, vs.Values[i]); ok {
							return v
						}
					}
				}
			}
		}
	}
	return -1
}

// c18FieldBound finds, in any Verify method of package shwap whose receiver
// declares field, a rejecting comparison `recv.field >= E` or `recv.field > E`
// and returns the largest admissible value with every int parameter at sizeMax.
func c18FieldBound(c *Check, pk *packages.Package, field string, sizeMax int64, encoder *ast.FuncDecl) (int64, string, bool) {
	best := int64(-1)
	bestExpr := ""
	for _, f := range pk.Syntax {
		if c.P.IsTestPos(f.Pos()) {
			continue
		}
		for _, d := range f.Decls {
			fd, ok := d.(*ast.FuncDecl)
			// bounds come from the Verify methods, or from a rejecting guard in the
			// encoder itself (refusing instead of truncating)
			if !ok || fd.Recv == nil || fd.Body == nil || (fd.Name.Name != "Verify" && fd != encoder) {
				continue
			}
			env := map[types.Object]ast.Expr{}
			ast.Inspect(fd.Body, func(n ast.Node) bool {
				if as, ok := n.(*ast.AssignStmt); ok && as.Tok == token.DEFINE && len(as.Lhs) == 1 && len(as.Rhs) == 1 {
					if id, ok := as.Lhs[0].(*ast.Ident); ok {
						env[pk.TypesInfo.Defs[id]] = as.Rhs[0]
					}
				}
				return true
			})
			ast.Inspect(fd.Body, func(n ast.Node) bool {
				ifs, ok := n.(*ast.IfStmt)
				if !ok {
					return true
				}
				// body must return
				ret := false
				for _, st := range ifs.Body.List {
					if _, ok := st.(*ast.ReturnStmt); ok {
						ret = true
					}
				}
				if !ret {
					return true
				}
				var visit func(e ast.Expr)
				visit = func(e ast.Expr) {
					be, ok := ast.Unparen(e).(*ast.BinaryExpr)
					if !ok {
						return
					}
					if be.Op == token.LOR {
						visit(be.X)
						visit(be.Y)
						return
					}
					if be.Op != token.GEQ && be.Op != token.GTR {
						return
					}
					if selectorField(pk, be.X) != field {
						return
					}
					v, ok := c18Eval(pk, be.Y, env, sizeMax, 0)
					if !ok {
						return
					}
					if be.Op == token.GEQ {
						v--
					}
					if best < 0 || v < best {
						best = v
						bestExpr = types.ExprString(be)
					}
				}
				visit(ifs.Cond)
				return true
			})
		}
	}
	return best, bestExpr, best >= 0
}

func c18Eval(pk *packages.Package, e ast.Expr, env map[types.Object]ast.Expr, sizeMax int64, depth int) (int64, bool) {
	if depth > 6 {
		return 0, false
	}
	e = ast.Unparen(e)
	if v, ok := constOf(pk, e); ok {
		return v, true
	}
	switch x := e.(type) {
	case *ast.Ident:
		obj := pk.TypesInfo.Uses[x]
		if def, ok := env[obj]; ok {
			return c18Eval(pk, def, env, sizeMax, depth+1)
		}
		if v, ok := obj.(*types.Var); ok {
			if b, ok := v.Type().Underlying().(*types.Basic); ok && b.Info()&types.IsInteger != 0 {
				return sizeMax, true // a size parameter at its protocol maximum
			}
		}
	case *ast.BinaryExpr:
		a, ok1 := c18Eval(pk, x.X, env, sizeMax, depth+1)
		b, ok2 := c18Eval(pk, x.Y, env, sizeMax, depth+1)
		if !ok1 || !ok2 {
			return 0, false
		}
		switch x.Op {
		case token.MUL:
			return a * b, true
		case token.ADD:
			return a + b, true
		case token.SUB:
			return a - b, true
		case token.QUO:
			if b != 0 {
				return a / b, true
			}
		}
	}
	return 0, false
}

// ---- R18.3 ----

func c18DecodersValidate(c *Check, pk *packages.Package, codecs []*idCodec) {
	p := c.P
	for _, k := range codecs {
		fn := p.Func("share/shwap", "", k.name+"FromBinary")
		if fn == nil {
			c.Unresolved("R18.3", k.name+"FromBinary SSA not found")
			continue
		}
		c.SawFunc(fn)
		succ := blocksOfReturns(successReturns(fn))
		// (a) length gate: a rejecting comparison of len(data) with a constant
		cut, _ := failGates(fn, func(cond ssa.Value, sl *Slice) bool {
			bo, ok := cond.(*ssa.BinOp)
			if !ok || bo.Op != token.NEQ {
				return false
			}
			_, isC := bo.Y.(*ssa.Const)
			return isLenCall(bo.X) && isC && sl.Vals[fn.Params[0]]
		})
		res := gateWalk(p, fn, succ, cut, nil)
		c.Ob("R18.3", k.name+":length gate", !res.Reached, p.Pos(fn.Pos()), "no value is returned without the exact-length test", res.Witness...)
		// (b) Validate gate (only for types that have a Validate method)
		hasValidate := p.Method(k.named, "Validate") != nil
		if !hasValidate {
			continue
		}
		vcut := callGates(func(cl *ssa.Call, idx int) GateKind {
			if o := calleeObj(&cl.Call); o != nil && o.Name() == "Validate" && pkgPathOf(o) == pkgShwap {
				// must be Validate of this type (not only of an embedded part)
				if rn := recvNamed(o); rn != nil && (rn == k.named || embeds(k.named, rn) && validatesAllParts(p, k.named, rn)) {
					return GateErr
				}
			}
			return NotGate
		})
		// `return v, v.Validate()` form: delegating return of Validate's result
		var targets []*ssa.Return
		for _, r := range successReturns(fn) {
			if cl := delegatesTo(r, errResultIndex(fn)); cl != nil {
				if o := calleeObj(&cl.Call); o != nil && o.Name() == "Validate" {
					if rn := recvNamed(o); rn != nil && (rn == k.named || embeds(k.named, rn) && validatesAllParts(p, k.named, rn)) {
						continue
					}
				}
			}
			targets = append(targets, r)
		}
		res = gateWalk(p, fn, blocksOfReturns(targets), vcut, nil)
		c.Ob("R18.3", k.name+":validate gate", !res.Reached, p.Pos(fn.Pos()),
			"decoded value returned without error only behind a successful Validate() of the whole value (sibling decoders do; the type has Validate)", res.Witness...)
	}
}

func embeds(outer, inner *types.Named) bool {
	st, ok := outer.Underlying().(*types.Struct)
	if !ok {
		return false
	}
	for i := 0; i < st.NumFields(); i++ {
		if st.Field(i).Embedded() && derefNamed(st.Field(i).Type()) == inner {
			return true
		}
	}
	return false
}

// validatesAllParts: outer wraps exactly inner (no further fields), so
// validating inner validates the whole (RangeNamespaceDataIDV0).
func validatesAllParts(p *Program, outer, inner *types.Named) bool {
	st, ok := outer.Underlying().(*types.Struct)
	return ok && st.NumFields() == 1
}

// ---- R18.4 ----

var c18PanicAllow = map[string]string{}

func c18Panics(c *Check) {
	p := c.P
	var entries []*ssa.Function
	for _, rel := range []string{"share/shwap", "share/shwap/p2p/bitswap", "share/shwap/p2p/shrex/shrexsub"} {
		for _, f := range p.FuncsOfPkg(rel) {
			if f.Parent() != nil {
				continue
			}
			n := f.Name()
			isEntry := n == "UnmarshalJSON" || n == "ReadFrom" || n == "UnmarshalBinary" || strings.HasSuffix(n, "FromBinary") || strings.HasSuffix(n, "FromProto") ||
				(n == "Write" && f.Signature.Recv() != nil && derefNamed(f.Signature.Recv().Type()) != nil && derefNamed(f.Signature.Recv().Type()).Obj().Name() == "hasher") ||
				n == "extractFromCID" || n == "validateCID"
			if isEntry {
				entries = append(entries, f)
				c.SawFunc(f)
			}
		}
	}
	c.Floor("R18.4", "decoder entry points", len(entries), 30)
	panicReach(c, "R18.4", entries, c18PanicAllow, ReachOpt{IntoAnon: true})
}

// panicReach reports every explicit panic instruction reachable from entries.
func panicReach(c *Check, rule string, entries []*ssa.Function, allow map[string]string, opt ReachOpt) int {
	p := c.P
	seen := p.Reach(entries, opt, nil)
	n := 0
	var fns []*ssa.Function
	for f := range seen {
		fns = append(fns, f)
	}
	sort.Slice(fns, func(i, j int) bool { return fns[i].String() < fns[j].String() })
	for _, f := range fns {
		for _, b := range f.Blocks {
			for _, ins := range b.Instrs {
				pn, ok := ins.(*ssa.Panic)
				if !ok || !pn.Pos().IsValid() {
					continue // synthetic panics (impossible fall-through of a blocking select) have no position
				}
				n++
				key := fnName(f)
				if why, ok := allow[key]; ok {
					c.Ob(rule, "panic@"+key, true, p.Pos(pn.Pos()), "allow-listed: "+why)
					continue
				}
				c.Ob(rule, "panic@"+key, false, p.Pos(pn.Pos()), "explicit panic reachable from an untrusted-input entry point", p.pathTo(seen[f])...)
			}
		}
	}
	c.Ob(rule, "reachable functions scanned", true, "-", fmt.Sprintf("%d first-party functions reachable from %d entry points scanned, %d explicit panics", len(seen), len(entries), n))
	return n
}

// ---- R18.6 ----

func c18ProtoNil(c *Check, pk *packages.Package) {
	p := c.P
	n := 0
	for _, f := range p.FuncsOfPkg("share/shwap") {
		if f.Parent() != nil || !strings.HasSuffix(f.Name(), "FromProto") || len(f.Params) != 1 {
			continue
		}
		if _, ok := f.Params[0].Type().(*types.Pointer); !ok {
			continue
		}
		n++
		c.SawFunc(f)
		prm := f.Params[0]
		// every use of the parameter other than the nil test is dominated by the non-nil edge
		var nonNilSucc *ssa.BasicBlock
		for _, b := range f.Blocks {
			if ifi, ok := b.Instrs[len(b.Instrs)-1].(*ssa.If); ok {
				if x, eq, ok := nilTest(ifi.Cond); ok && x == ssa.Value(prm) {
					nonNilSucc = b.Succs[0]
					if eq {
						nonNilSucc = b.Succs[1]
					}
				}
			}
		}
		ok := nonNilSucc != nil
		if ok {
			for _, r := range *prm.Referrers() {
				if bo, isB := r.(*ssa.BinOp); isB && (isNilConst(bo.X) || isNilConst(bo.Y)) {
					continue
				}
				if !nonNilSucc.Dominates(r.Block()) {
					// generated getters are nil-safe: a call with the parameter as receiver of a Get* method
					if cl, isC := r.(*ssa.Call); isC {
						if o := calleeObj(&cl.Call); o != nil && strings.HasPrefix(o.Name(), "Get") {
							continue
						}
					}
					ok = false
				}
			}
		}
		c.Ob("R18.6", f.Name(), ok, p.Pos(f.Pos()), "pointer argument is nil-tested before any non-getter use")
	}
	c.Floor("R18.6", "FromProto converters with pointer argument", n, 4)
}

// c18Order names the byte order of an encoding/binary method (its receiver type).
func c18Order(fn *types.Func) string {
	if rn := recvNamed(fn); rn != nil {
		return rn.Obj().Name()
	}
	return ""
}

// c18ResolveLocal replaces an identifier of a local variable that is defined
// exactly once in body (x := expr) by that expression, so that
// `idx := uint16(id.F); AppendUint16(data, idx)` reads like the inline form.
func c18ResolveLocal(pk *packages.Package, body *ast.BlockStmt, e ast.Expr) ast.Expr {
	for depth := 0; depth < 4; depth++ {
		id, ok := ast.Unparen(e).(*ast.Ident)
		if !ok {
			return e
		}
		obj := pk.TypesInfo.Uses[id]
		if obj == nil {
			return e
		}
		var def ast.Expr
		n := 0
		ast.Inspect(body, func(nd ast.Node) bool {
			as, ok := nd.(*ast.AssignStmt)
			if !ok || len(as.Lhs) != len(as.Rhs) {
				return true
			}
			for i, l := range as.Lhs {
				if lid, ok := l.(*ast.Ident); ok && (pk.TypesInfo.Defs[lid] == obj || pk.TypesInfo.Uses[lid] == obj) {
					n++
					def = as.Rhs[i]
				}
			}
			return true
		})
		if n != 1 || def == nil {
			return e
		}
		e = def
	}
	return e
}
