package main

import (
	"reflect"
	"strings"

	"go/types"

	"golang.org/x/tools/go/ssa"
)

// c16PureDecode (R16.4): "the verdict is independent of how the header was encoded and of what
// was decoded before": UnmarshalExtendedHeader and the first-party functions it calls write no
// package-level state (a memo keyed by a CLAIMED field lets an earlier header's validator set
// replace the one on the wire).
func c16PureDecode(c *Check) {
	p := c.P
	c.Rule("R16.4", "header decoding is a function of its input: no package-level state is written while decoding")
	entry := p.Func("header", "", "UnmarshalExtendedHeader")
	if entry == nil {
		c.Unresolved("R16.4", "header.UnmarshalExtendedHeader not found")
		return
	}
	seen := map[*ssa.Function]bool{}
	var fns []*ssa.Function
	var walk func(f *ssa.Function, d int)
	walk = func(f *ssa.Function, d int) {
		if f == nil || seen[f] || d > 3 || f.Blocks == nil || !p.FirstParty(f) {
			return
		}
		seen[f] = true
		fns = append(fns, f)
		for _, b := range f.Blocks {
			for _, ins := range b.Instrs {
				if ci, ok := ins.(ssa.CallInstruction); ok {
					walk(ci.Common().StaticCallee(), d+1)
				}
			}
		}
	}
	walk(entry, 0)
	isGlobalAddr := func(v ssa.Value) *ssa.Global {
		for i := 0; i < 4; i++ {
			switch x := v.(type) {
			case *ssa.Global:
				return x
			case *ssa.FieldAddr:
				v = x.X
			case *ssa.IndexAddr:
				v = x.X
			default:
				return nil
			}
		}
		return nil
	}
	n := 0
	for _, f := range fns {
		c.SawFunc(f)
		for _, b := range f.Blocks {
			for _, ins := range b.Instrs {
				n++
				switch x := ins.(type) {
				case *ssa.Store:
					if g := isGlobalAddr(x.Addr); g != nil && g.Pkg != nil && strings.HasPrefix(g.Pkg.Pkg.Path(), modPath) {
						c.Ob("R16.4", "write of "+g.Name()+"@"+fnName(f), false, p.Pos(x.Pos()), "package-level state written while decoding a header")
					}
				case ssa.CallInstruction:
					// methods on a package-level value (mutex, atomic, map helpers)
					args := x.Common().Args
					if len(args) > 0 {
						if g := isGlobalAddr(args[0]); g != nil && g.Pkg != nil && strings.HasPrefix(g.Pkg.Pkg.Path(), modPath) && x.Common().StaticCallee() != nil && x.Common().StaticCallee().Signature.Recv() != nil {
							if n := derefNamed(g.Type()); n == nil || n.Obj().Name() != "ZapEventLogger" {
								c.Ob("R16.4", "method on "+g.Name()+"@"+fnName(f), false, p.Pos(x.Pos()), "package-level state used through a method call while decoding a header")
							}
						}
					}
				}
			}
		}
	}
	c.Floor("R16.4", "instructions examined on the decode path", n, 20)
	if len(c.findings) == 0 || true {
		c.Ob("R16.4", "decode path examined", len(fns) >= 1, p.Pos(entry.Pos()), "UnmarshalExtendedHeader and its first-party callees were examined")
	}
}

// c19PayloadKeys (R19.3c): tokens are long-lived and verified by later versions of the node: the
// JSON key of every JWTPayload field equals the field's name up to case (what encoding/json
// accepts for an untagged field), in particular the expiry keeps its key - a renamed key makes
// every token issued before decode with a zero expiry, i.e. never expire.
func c19PayloadKeys(c *Check) {
	p := c.P
	pn := p.Named("api/rpc/perms", "JWTPayload")
	if pn == nil {
		c.Unresolved("R19.3b", "perms.JWTPayload not found")
		return
	}
	st, ok := pn.Underlying().(*types.Struct)
	if !ok {
		return
	}
	for i := 0; i < st.NumFields(); i++ {
		f := st.Field(i)
		key := f.Name()
		if tag := reflect.StructTag(st.Tag(i)).Get("json"); tag != "" {
			if name := strings.Split(tag, ",")[0]; name != "" {
				key = name
			}
		}
		c.Ob("R19.3b", "JWTPayload."+f.Name()+" JSON key", strings.EqualFold(key, f.Name()) && key != "-", "api/rpc/perms", "the JSON key ("+key+") matches the field name up to case, so tokens issued earlier still decode this field")
	}
}
