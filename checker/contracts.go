package main

import (
	"fmt"
	"strings"
)

// importRules evaluates another property's rules in a scratch check and re-emits,
// under `as`, the obligations of the selected rules: properties that rest on a
// contract decided elsewhere (the getters on the shwap verifiers and the bitswap
// registry, the subscription on getBlobs' error mapping) fail together with it.
func importRules(c *Check, as, what string, run func(*Check), pick func(Finding) bool, evalsOf func(*Check) int) {
	sub := newCheck(c.Prop, c.Tier, c.P)
	run(sub)
	n := 0
	for _, f := range sub.findings {
		if pick(f) {
			n++
			c.Ob(as, f.Rule+" "+f.Construct, false, f.Pos, f.Msg, f.Path...)
		}
	}
	if n == 0 {
		c.Ob(as, what, evalsOf(sub) > 0, "-", fmt.Sprintf("contract holds (%d obligations evaluated by the owning property's rules)", evalsOf(sub)))
	}
}

func pickRule(prefixes ...string) func(Finding) bool {
	return func(f Finding) bool {
		for _, p := range prefixes {
			if strings.HasPrefix(f.Rule, p) {
				return true
			}
		}
		return false
	}
}
