package main

// Shared machinery for the shwap verifier rules (C01, C02, C06, C10).

import (
	"fmt"
	"go/token"
	"go/types"
	"sort"
	"strings"

	"golang.org/x/tools/go/ssa"
)

const (
	pkgShwap = modPath + "/share/shwap"
	pkgShare = modPath + "/share"
	pkgNmt   = "github.com/celestiaorg/nmt"
)

type verifier struct {
	fn    *ssa.Function
	roots []int // parameter indexes holding trusted roots
	resp  []int // receiver and share-carrying parameters (untrusted response)
	req   []int // requested position / namespace parameters
	recvT *types.Named
}

func (v *verifier) name() string { return fnName(v.fn) }

// share.AxisRoots is an alias of celestia-app's da.DataAvailabilityHeader.
func isAxisRootsPtr(t types.Type) bool {
	n := derefNamed(t)
	return n != nil && n.Obj().Name() == "DataAvailabilityHeader" && n.Obj().Pkg() != nil && strings.HasSuffix(n.Obj().Pkg().Path(), "/pkg/da")
}

func isByteSliceSlice(t types.Type) bool {
	s, ok := t.Underlying().(*types.Slice)
	if !ok {
		return false
	}
	s2, ok := s.Elem().Underlying().(*types.Slice)
	if !ok {
		return false
	}
	b, ok := s2.Elem().Underlying().(*types.Basic)
	return ok && b.Kind() == types.Uint8
}

func typeMentionsShare(t types.Type, depth int) bool {
	if depth > 4 {
		return false
	}
	switch x := t.(type) {
	case *types.Named:
		if x.Obj().Name() == "Share" && x.Obj().Pkg() != nil && strings.HasSuffix(x.Obj().Pkg().Path(), "go-square/v4/share") {
			return true
		}
		return false
	case *types.Alias:
		return typeMentionsShare(types.Unalias(x), depth+1)
	case *types.Slice:
		return typeMentionsShare(x.Elem(), depth+1)
	case *types.Pointer:
		return typeMentionsShare(x.Elem(), depth+1)
	}
	return false
}

// shwapVerifiers finds the verifier methods of package shwap by signature:
// methods returning exactly `error` that take *share.AxisRoots, plus the methods
// of RangeNamespaceData that take a [][]byte root sub-slice (named anchor: range
// data is verified against a slice of row roots, not the AxisRoots struct).
func shwapVerifiers(c *Check, rule string) []*verifier {
	p := c.P
	pk := p.Pkg("share/shwap")
	if pk == nil {
		c.Unresolved(rule, "package share/shwap not loaded")
		return nil
	}
	var out []*verifier
	sc := pk.Types.Scope()
	for _, n := range sc.Names() {
		tn, ok := sc.Lookup(n).(*types.TypeName)
		if !ok || tn.IsAlias() || p.IsTestPos(tn.Pos()) {
			continue
		}
		nt, ok := tn.Type().(*types.Named)
		if !ok {
			continue
		}
		for i := 0; i < nt.NumMethods(); i++ {
			m := nt.Method(i)
			if p.IsTestPos(m.Pos()) {
				continue
			}
			sig := m.Type().(*types.Signature)
			if sig.Results().Len() != 1 || !isErrorType(sig.Results().At(0).Type()) {
				continue
			}
			fn := p.SSA.FuncValue(m)
			if fn == nil || fn.Blocks == nil {
				continue
			}
			v := &verifier{fn: fn, recvT: nt, resp: []int{0}}
			for j := 0; j < sig.Params().Len(); j++ {
				pt := sig.Params().At(j).Type()
				pi := j + 1
				switch {
				case isAxisRootsPtr(pt):
					v.roots = append(v.roots, pi)
				case isByteSliceSlice(pt) && nt.Obj().Name() == "RangeNamespaceData":
					v.roots = append(v.roots, pi)
				case typeMentionsShare(pt, 0):
					v.resp = append(v.resp, pi)
				default:
					if b, ok := pt.Underlying().(*types.Basic); ok && b.Kind() == types.Bool {
						continue
					}
					v.req = append(v.req, pi)
				}
			}
			if len(v.roots) == 0 {
				continue
			}
			out = append(out, v)
		}
	}
	sort.Slice(out, func(i, j int) bool { return out[i].name() < out[j].name() })
	return out
}

func verifierByFn(vs []*verifier, f *ssa.Function) *verifier {
	for _, v := range vs {
		if v.fn == f {
			return v
		}
	}
	return nil
}

func sliceHasAnyParam(sl *Slice, fn *ssa.Function, idxs []int) bool {
	for _, i := range idxs {
		if i < len(fn.Params) && sl.Vals[fn.Params[i]] {
			return true
		}
	}
	return false
}

// ---- failure classification ----

func isFailureReturn(r *ssa.Return, fn *ssa.Function) bool {
	ei := errResultIndex(fn)
	if ei >= 0 {
		cls, v := classifyReturn(r, ei)
		switch cls {
		case retErr:
			return true
		case retDelegate, retUnknown:
			return v != nil && nonNilAt(v, r.Block())
		}
		return false
	}
	if len(r.Results) == 1 {
		if k, ok := r.Results[0].(*ssa.Const); ok && k.Value != nil && k.Value.String() == "false" {
			return true
		}
	}
	return false
}

func leadsToFailure(b *ssa.BasicBlock, fn *ssa.Function) bool {
	for depth := 0; depth < 4 && b != nil; depth++ {
		last := b.Instrs[len(b.Instrs)-1]
		switch x := last.(type) {
		case *ssa.Return:
			return isFailureReturn(x, fn)
		case *ssa.Jump:
			b = b.Succs[0]
		case *ssa.Panic:
			return true
		default:
			return false
		}
	}
	return false
}

// failGates builds an EdgeCut: every branch whose condition satisfies want and
// that has exactly one successor leading straight to a failure return is a
// gate; its other edge is the success edge and is cut.
func failGates(fn *ssa.Function, want func(cond ssa.Value, sl *Slice) bool) (EdgeCut, []string) {
	type ct struct{ t, f bool }
	cuts := map[*ssa.BasicBlock]ct{}
	var desc []string
	for _, b := range fn.Blocks {
		ifi, ok := b.Instrs[len(b.Instrs)-1].(*ssa.If)
		if !ok {
			continue
		}
		t := leadsToFailure(b.Succs[0], fn)
		f := leadsToFailure(b.Succs[1], fn)
		if t == f {
			continue
		}
		sl := backSlice(ifi.Cond, SliceOpt{CallArgs: true, ThroughFreeVars: true, PhiControl: true})
		if !want(ifi.Cond, sl) {
			continue
		}
		cuts[b] = ct{t: !t, f: !f}
		desc = append(desc, fmt.Sprintf("block %d", b.Index))
	}
	return func(b *ssa.BasicBlock, ifi *ssa.If) (bool, bool) {
		c := cuts[b]
		return c.t, c.f
	}, desc
}

// ---- crypto leaves ----

func isCryptoLeaf(o *types.Func) bool {
	if o == nil {
		return false
	}
	switch {
	case pkgPathOf(o) == pkgNmt && recvNamed(o) != nil && recvNamed(o).Obj().Name() == "Proof":
		switch o.Name() {
		case "VerifyInclusion", "VerifyNamespace", "VerifyLeafHashes", "VerifySubtreeRootInclusion":
			return true
		}
	case pkgPathOf(o) == "bytes" && o.Name() == "Equal":
		return true
	case strings.HasSuffix(pkgPathOf(o), "/pkg/da") && o.Name() == "Equals" && recvNamed(o) != nil && recvNamed(o).Obj().Name() == "DataAvailabilityHeader":
		return true
	}
	return false
}

type cryptoInfo struct {
	memo map[*ssa.Function]int  // 0 unknown, 1 yes, 2 no, 3 in progress
	leaf func(*types.Func) bool // which dependency calls count as leaves (default isCryptoLeaf)
	p    *Program
}

func newCryptoInfo(p *Program) *cryptoInfo { return &cryptoInfo{memo: map[*ssa.Function]int{}, p: p} }

// isCryptoHelper: fn's verdict (a returned value or a failure-gate condition)
// depends on the result of a crypto leaf (directly or through another helper)
// that consumes at least one of fn's parameters.
func (ci *cryptoInfo) isCryptoHelper(fn *ssa.Function, depth int) bool {
	if fn == nil || fn.Blocks == nil || depth > 4 {
		return false
	}
	switch ci.memo[fn] {
	case 1:
		return true
	case 2, 3:
		return false
	}
	ci.memo[fn] = 3
	res := false
	var verdictVals []ssa.Value
	for _, r := range returnsOf(fn) {
		verdictVals = append(verdictVals, r.Results...)
	}
	for _, b := range fn.Blocks {
		if ifi, ok := b.Instrs[len(b.Instrs)-1].(*ssa.If); ok {
			if leadsToFailure(b.Succs[0], fn) != leadsToFailure(b.Succs[1], fn) {
				verdictVals = append(verdictVals, ifi.Cond)
			}
		}
	}
	sl := backSliceAll(verdictVals, SliceOpt{CallArgs: true})
	for v := range sl.Vals {
		cl, ok := v.(*ssa.Call)
		if !ok {
			continue
		}
		if ci.callIsCrypto(cl, depth) {
			// must consume a parameter
			as := backSliceAll(callOperands(cl), SliceOpt{CallArgs: true})
			for _, pm := range fn.Params {
				if as.Vals[pm] {
					res = true
				}
			}
		}
	}
	if res {
		ci.memo[fn] = 1
	} else {
		ci.memo[fn] = 2
	}
	return res
}

func callOperands(cl *ssa.Call) []ssa.Value {
	out := append([]ssa.Value{}, cl.Call.Args...)
	if cl.Call.IsInvoke() {
		out = append(out, cl.Call.Value)
	}
	return out
}

func (ci *cryptoInfo) callIsCrypto(cl *ssa.Call, depth int) bool {
	leaf := ci.leaf
	if leaf == nil {
		leaf = isCryptoLeaf
	}
	if leaf(calleeObj(&cl.Call)) {
		return true
	}
	if f := cl.Call.StaticCallee(); f != nil && ci.p.FirstParty(f) {
		return ci.isCryptoHelper(f, depth+1)
	}
	return false
}

// cryptoGateWant returns a predicate for failGates: the condition depends on a
// crypto call whose operands depend on both a roots parameter and a response
// parameter of v.
func (ci *cryptoInfo) cryptoGateWant(v *verifier) func(ssa.Value, *Slice) bool {
	return func(cond ssa.Value, sl *Slice) bool {
		for x := range sl.Vals {
			cl, ok := x.(*ssa.Call)
			if !ok || !ci.callIsCrypto(cl, 0) {
				continue
			}
			as := backSliceAll(callOperands(cl), SliceOpt{CallArgs: true, ThroughFreeVars: true})
			if sliceHasAnyParam(as, v.fn, v.roots) && sliceHasAnyParam(as, v.fn, v.resp) {
				return true
			}
		}
		return false
	}
}

// rangeLoopExitCuts: for `for ... := range X` loops (rangeindex lowering) where X
// depends on one of the given parameters and every iteration crosses a cut edge
// of inner before coming back to the loop header, the loop's exit edge is
// treated as discharged.
func rangeLoopExitCuts(p *Program, fn *ssa.Function, params []int, inner EdgeCut) (EdgeCut, int) {
	exits := map[*ssa.BasicBlock]bool{}
	n := 0
	for _, b := range fn.Blocks {
		if b.Comment != "rangeindex.loop" {
			continue
		}
		ifi, ok := b.Instrs[len(b.Instrs)-1].(*ssa.If)
		if !ok {
			continue
		}
		bo, ok := ifi.Cond.(*ssa.BinOp)
		if !ok || bo.Op != token.LSS {
			continue
		}
		sl := backSlice(bo.Y, SliceOpt{CallArgs: true})
		if !sliceHasAnyParam(sl, fn, params) {
			continue
		}
		body := b.Succs[0]
		res := gateWalk(p, fn, map[*ssa.BasicBlock]bool{b: true}, inner, body)
		if !res.Reached && !res.Overflow {
			exits[b] = true
			n++
		}
	}
	return func(b *ssa.BasicBlock, ifi *ssa.If) (bool, bool) {
		if exits[b] {
			return false, true
		}
		return false, false
	}, n
}

func blocksOfReturns(rs []*ssa.Return) map[*ssa.BasicBlock]bool {
	m := map[*ssa.BasicBlock]bool{}
	for _, r := range rs {
		m[r.Block()] = true
	}
	return m
}

// delegatesTo: r returns the result of a call; returns that call.
func delegatesTo(r *ssa.Return, errIdx int) *ssa.Call {
	if errIdx < 0 || errIdx >= len(r.Results) {
		return nil
	}
	switch x := r.Results[errIdx].(type) {
	case *ssa.Call:
		return x
	case *ssa.Extract:
		c, _ := x.Tuple.(*ssa.Call)
		return c
	}
	return nil
}

// loadOfField: v is *(&x.F) or x.F for a field named name; returns the base x.
func loadOfField(v ssa.Value, name string) (ssa.Value, bool) {
	switch x := v.(type) {
	case *ssa.UnOp:
		if x.Op == token.MUL {
			if fa, ok := x.X.(*ssa.FieldAddr); ok && fieldOf(fa) != nil && fieldOf(fa).Name() == name {
				return fa.X, true
			}
		}
	case *ssa.Field:
		if f := fieldOfVal(x); f != nil && f.Name() == name {
			return x.X, true
		}
	}
	return nil, false
}
