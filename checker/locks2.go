package main

import (
	"fmt"
	"go/token"
	"strings"

	"golang.org/x/tools/go/ssa"
)

// checkReleasedAtReturns: may-analysis companion of the wrapper summaries. A lock
// taken in f and possibly still held at one of f's returns, with no deferred
// release, is reported (the must-analysis alone misses a leak on one path).
func (la *lockAnalysis) checkReleasedAtReturns(c *Check, rule string, f *ssa.Function) {
	p := c.P
	deferred := lockSet{}
	for _, b := range f.Blocks {
		for _, ins := range b.Instrs {
			if d, ok := ins.(*ssa.Defer); ok {
				if op := lockOpOf(d); op != nil && !op.acquire {
					deferred[op.id] = true
				}
				if g := d.Call.StaticCallee(); g != nil {
					for l := range la.netRelease[g] {
						deferred[l] = true
					}
				}
				// defer func() { ...Unlock() }()
				if mc, ok := d.Call.Value.(*ssa.MakeClosure); ok {
					if cf, ok := mc.Fn.(*ssa.Function); ok {
						for _, cb := range cf.Blocks {
							for _, ci := range cb.Instrs {
								if k, ok := ci.(ssa.CallInstruction); ok {
									if op := lockOpOf(k); op != nil && !op.acquire {
										deferred[op.id] = true
									}
								}
							}
						}
					}
				}
			}
		}
	}
	for _, r := range returnsOf(f) {
		leak := lockSet{}
		for l := range la.mayBefore[r] {
			if !deferred[l] {
				leak[l] = true
			}
		}
		if len(leak) > 0 {
			c.Ob(rule, fnName(f)+": return holding "+strings.Join(leak.keys(), ","), false, p.Pos(r.Pos()), "a path reaches this return with the lock possibly still held and no deferred release")
		}
	}
}

// checkNoBlockingUnderLock reports channel operations, blocking selects, sleeps and
// Wait calls executed while a lock taken in the same function may be held.
// exempt: fnName suffix -> reason.
func (la *lockAnalysis) checkNoBlockingUnderLock(c *Check, rule string, exempt map[string]string) int {
	p := c.P
	n := 0
	for _, f := range la.funcs {
		for _, b := range f.Blocks {
			for _, ins := range b.Instrs {
				what := ""
				switch x := ins.(type) {
				case *ssa.Select:
					if x.Blocking {
						what = "select"
					}
				case *ssa.UnOp:
					if x.Op == token.ARROW {
						what = "channel receive"
					}
				case *ssa.Send:
					what = "channel send"
				case *ssa.Call:
					if o := calleeObj(&x.Call); o != nil {
						switch {
						case pkgPathOf(o) == "time" && o.Name() == "Sleep":
							what = "time.Sleep"
						case o.Name() == "Wait" && (pkgPathOf(o) == "sync" || strings.HasSuffix(pkgPathOf(o), "errgroup")) && (recvNamed(o) == nil || recvNamed(o).Obj().Name() != "Cond"):
							what = o.FullName()
						}
					}
				}
				if what == "" {
					continue
				}
				n++
				held := la.mayBefore[ins]
				why := ""
				for suf, r := range exempt {
					if strings.HasSuffix(fnName(f), suf) {
						why = r
					}
				}
				if why != "" && len(held) > 0 {
					c.Ob(rule, what+"@"+fnName(f), true, p.Pos(ins.Pos()), "exception: "+why)
					continue
				}
				c.Ob(rule, what+"@"+fnName(f), len(held) == 0, p.Pos(ins.Pos()), fmt.Sprintf("blocking operation with locks possibly held: %v", held.keys()))
			}
		}
	}
	return n
}
