package main

// errDisciplinePkgs: the packages whose error handling each property rests on
// (repo-relative). The two generic rules of errorDiscipline are evaluated over
// them as rule R<n>.E of the property.
var errDisciplinePkgs = map[string][]string{
	"C01": {"share/shwap", "share"},
	"C02": {"share/shwap", "share"},
	"C03": {"share/availability/light"},
	"C04": {"das"},
	"C05": {"store", "store/file", "store/cache", "share/eds"},
	"C06": {"share/shwap/p2p/shrex/shrex_getter", "share/shwap/getters", "store"},
	"C07": {"store", "store/file"},
	"C08": {"store/cache"},
	"C09": {"share/shwap/p2p/shrex"},
	"C10": {"share/shwap/p2p/bitswap"},
	"C11": {"blob"},
	"C12": {"blob"},
	"C13": {"das"},
	"C14": {"pruner", "nodebuilder/pruner"},
	"C15": {"core", "share/availability", "share/availability/full"},
	"C16": {"header"},
	"C17": {"share/shwap/p2p/shrex/peers"},
	"C18": {"share/shwap"},
	"C19": {"api/rpc", "libs/authtoken"},
	"C20": {"blob"},
}

// droppedErrExempt: every site was read; callee@function substring -> why the
// discarded error cannot hide a failure the properties care about.
var droppedErrExempt = map[string]string{
	"(*os.File).Close@store/file.validateQ4Size":                                            "deferred Close of a descriptor opened read-only with os.Open: nothing can be lost",
	"pruner.metrics).close@(*pruner.Service).Stop":                                          "unregistering metrics at shutdown",
	"store.Store).HasByHeight@(*share/availability/full.ShareAvailability).SharesAvailable": "already-stored shortcut: on a store error the square is fetched and Put, which reports the error",
	"(*net/http.Server).Serve@(*api/rpc.Server).Start":                                      "go statement of the HTTP server loop; its terminal error is http.ErrServerClosed at Stop",
	"(*net/http.Server).ServeTLS@(*api/rpc.Server).Start":                                   "go statement of the HTTPS server loop; its terminal error is http.ErrServerClosed at Stop",
	"(net.Listener).Close@(*api/rpc.Server).Start":                                          "closing the listener on the TLS configuration error path, the configuration error is returned",
	"MuxedStream).Reset@":     "resetting a libp2p stream that is being abandoned; the request's own error is what is reported",
	"Stream).ResetWithError@": "resetting a libp2p stream that is being abandoned; the request's own error is what is reported",
	"ClientStream).CloseSend@(*core.BlockFetcher).SubscribeNewBlockEvent":                 "half-closing the gRPC subscription stream on exit of the receive loop",
	"(io.Closer).Close@(*share/shwap/p2p/shrex/peers.Manager).subscribeDisconnectedPeers": "closing the event-bus subscription on exit of the loop",
}

// errorDiscipline evaluates the two generic error rules over the packages.
func errorDiscipline(c *Check, rule string, rels ...string) {
	c.Rule(rule, "error discipline: no error discarded (reasoned exemptions only); a value produced with an error is returned only on success or together with that error")
	dropped := checkNoDroppedErrors(c, rule, droppedErrExempt, rels...)
	guarded := checkResultsOnlyOnSuccess(c, rule, rels...)
	examined := 0
	for _, rel := range rels {
		for _, f := range c.P.FuncsOfPkg(rel) {
			examined += len(errorReturningCalls(f))
		}
	}
	c.Note("%s: %d error-returning calls examined, %d discarded (all exempted or reported), %d error-guarded results", rule, examined, dropped, guarded)
	c.Floor(rule, "error-returning calls examined", examined, 1)
}
