package main

import (
	"fmt"
	"go/constant"
	"go/types"
	"sort"
	"strings"

	"golang.org/x/tools/go/ssa"
)

func init() {
	register("C10", runC10,
		"Structural necessary conditions of 'a Bitswap block fills a request only if it carries the requested identifier and verifies'. Subjects are found by type: every first-party type implementing bitswap.Block. R10.1: inside the closure returned by UnmarshalFn every store to the block's Container field is reachable only across (i) the success edge of ID.Equals(decoded id) with the decoded id derived from the closure's id-bytes parameter and (ii) the success edge of the container's verifier called with the closure's root and with the very value that is then stored; no function other than Populate and that closure writes Container. R10.2: in the hasher, the sum is set only across the UnmarshalFn success edge and is the id extracted from the CID; extractFromCID returns only across validateCID success; validateCID rejects on version, multihash type and multihash length against the registered spec; Sum returns only the stored sum and Reset clears it; the global registry of unmarshal functions is written only through the atomic LoadOrStore and the deferred Delete is on the not-loaded side. R10.3 registry agreement: for every Block type the (multihash code, codec) constants passed to registerBlock equal those passed to encodeToCID in CID(), the registered id size equals the Size constant of the type's ID, the builder returns that type, and codes are pairwise distinct. R10.4: the serving Blockstore.Get converts a block only across Populate success and closes the accessor on every path. Not decided: CID<->ID bijection on values; concurrent duplicate fetches; that honest blocks always pass.",
		"go-multihash calls the registered hasher's Write for every received block and compares Sum with the digest in the CID (dependency)")
}

const pkgBitswap = modPath + "/share/shwap/p2p/bitswap"

func bitswapBlockTypes(c *Check, rule string) []*types.Named {
	p := c.P
	bi := p.Named("share/shwap/p2p/bitswap", "Block")
	if bi == nil {
		c.Unresolved(rule, "bitswap.Block not found")
		return nil
	}
	it, ok := bi.Underlying().(*types.Interface)
	if !ok {
		c.Unresolved(rule, "bitswap.Block is not an interface")
		return nil
	}
	var out []*types.Named
	for _, n := range p.Implementers(it) {
		if n.Obj().Pkg().Path() == pkgBitswap {
			out = append(out, n)
		}
	}
	return out
}

func structField(n *types.Named, name string) *types.Var {
	st, ok := n.Underlying().(*types.Struct)
	if !ok {
		return nil
	}
	for i := 0; i < st.NumFields(); i++ {
		if st.Field(i).Name() == name {
			return st.Field(i)
		}
	}
	return nil
}

func runC10(c *Check) {
	p := c.P
	c.Rule("R10.1", "Container is stored only behind ID equality and successful verification of the stored value; no other writer")
	c.Rule("R10.2", "hasher accepts only across UnmarshalFn success; CID validated against the registered spec; registry updated atomically")
	c.Rule("R10.3", "registry agreement: registerBlock constants == CID() constants; id size == ID Size constant; builder type; distinct codes")
	c.Rule("R10.4", "serving side: convert only after Populate success; accessor closed")
	blocks := bitswapBlockTypes(c, "R10.1")
	c.Floor("R10.1", "types implementing bitswap.Block", len(blocks), 4)
	vs := shwapVerifiers(c, "R10.1")
	for _, bt := range blocks {
		c10Unmarshal(c, bt, vs)
	}
	c10Writers(c, blocks)
	c10Hasher(c)
	c10Registry(c, blocks)
	c10Serving(c)
	_ = p
	c.Rule("R10.5", "a failed in-fetch verification ends the fetch (panic or that error), never a silent success")
	c10FetchVerdict(c, "R10.5")
	c.Rule("R10.6", "the verification hasher accepts only blocks of the type (multihash code) it is registered for")
	c10HasherBinding(c, "R10.6")
	// the bitswap blocks rest on the shwap container verifiers (C01 root/position/axis gates, C02 completeness gates)
	c.Rule("R10.7", "contracts the block verification rests on: shwap container verifier gates")
	importRules(c, "R10.7", "C01 R1.1-R1.3 verifier gates", runC01, pickRule("R1.1", "R1.2", "R1.3"), func(s *Check) int { return s.evals })
}

func c10Unmarshal(c *Check, bt *types.Named, vs []*verifier) {
	p := c.P
	name := bt.Obj().Name()
	uf := p.Method(bt, "UnmarshalFn")
	if uf == nil || len(uf.AnonFuncs) != 1 {
		c.Unresolved("R10.1", name+".UnmarshalFn: expected exactly one closure")
		return
	}
	cl := uf.AnonFuncs[0]
	c.SawFunc(cl)
	contF := structField(bt, "Container")
	idF := structField(bt, "ID")
	if contF == nil || idF == nil {
		c.Unresolved("R10.1", name+": fields ID/Container not found")
		return
	}
	if len(cl.Params) != 2 {
		c.Unresolved("R10.1", name+".UnmarshalFn closure signature")
		return
	}
	idData := cl.Params[1]
	// free var for root
	var rootFV ssa.Value
	for _, fv := range cl.FreeVars {
		t := fv.Type()
		for {
			pt, ok := t.(*types.Pointer)
			if !ok {
				break
			}
			if isAxisRootsPtr(pt) {
				rootFV = fv
			}
			t = pt.Elem()
		}
	}
	opt := SliceOpt{CallArgs: true}
	equalsCut := callGates(func(g *ssa.Call, idx int) GateKind {
		o := calleeObj(&g.Call)
		if o == nil || o.Name() != "Equals" || pkgPathOf(o) != pkgShwap || len(g.Call.Args) != 2 {
			return NotGate
		}
		// receiver: the block's own ID; argument: decoded from idData
		recvSl := backSlice(g.Call.Args[0], SliceOpt{})
		argSl := backSlice(g.Call.Args[1], opt)
		if recvSl.Has(func(v ssa.Value) bool {
			fa, ok := v.(*ssa.FieldAddr)
			return ok && fieldOf(fa) == idF
		}) && argSl.Vals[idData] {
			return GateTrue
		}
		return NotGate
	})
	n := 0
	for _, b := range cl.Blocks {
		for _, ins := range b.Instrs {
			st, ok := ins.(*ssa.Store)
			if !ok {
				continue
			}
			fa, ok := st.Addr.(*ssa.FieldAddr)
			if !ok || fieldOf(fa) != contF {
				continue
			}
			n++
			tg := map[*ssa.BasicBlock]bool{b: true}
			res := gateWalk(p, cl, tg, equalsCut, nil)
			c.Ob("R10.1", name+":store Container:id gate", !res.Reached, p.Pos(st.Pos()),
				"Container is stored only across ID.Equals(id decoded from the received id bytes) == true", res.Witness...)
			stored := st.Val
			verifyCut := callGates(func(g *ssa.Call, idx int) GateKind {
				callee := g.Call.StaticCallee()
				if callee == nil || verifierByFn(vs, callee) == nil {
					return NotGate
				}
				v := verifierByFn(vs, callee)
				// the verified receiver is the stored value (or its address)
				recv := g.Call.Args[0]
				same := recv == stored
				if ld, ok := stored.(*ssa.UnOp); ok && ld.X == recv {
					same = true
				}
				if ld, ok := recv.(*ssa.UnOp); ok && ld.X == stored {
					same = true
				}
				if al, ok := recv.(*ssa.Alloc); ok {
					// verified through the address of a local that holds the stored value
					if sv, ok := stored.(*ssa.UnOp); ok && sv.X == ssa.Value(al) {
						same = true
					}
					_ = al
				}
				if !same {
					// both are loads of the same local
					rs := backSlice(recv, SliceOpt{})
					ss := backSlice(stored, SliceOpt{})
					for x := range rs.Vals {
						switch x.(type) {
						case *ssa.Alloc, *ssa.Extract:
							if ss.Vals[x] {
								same = true
							}
						}
					}
				}
				if !same {
					return NotGate
				}
				// roots argument is the closure's root
				for _, ri := range v.roots {
					rs := backSlice(g.Call.Args[ri], opt)
					if rootFV == nil || !rs.Vals[rootFV] {
						return NotGate
					}
				}
				return GateErr
			})
			res = gateWalk(p, cl, tg, verifyCut, nil)
			c.Ob("R10.1", name+":store Container:verify gate", !res.Reached, p.Pos(st.Pos()),
				"Container is stored only across a successful verification, against the closure's root, of the very value being stored", res.Witness...)
		}
	}
	c.Ob("R10.1", name+":closure stores Container", n >= 1, p.Pos(cl.Pos()), fmt.Sprintf("%d store(s) to Container in the UnmarshalFn closure", n))
}

func c10Writers(c *Check, blocks []*types.Named) {
	p := c.P
	cont := map[*types.Var]string{}
	for _, bt := range blocks {
		if f := structField(bt, "Container"); f != nil {
			cont[f] = bt.Obj().Name()
		}
	}
	n := 0
	for _, f := range p.SrcFuncs {
		if p.IsTestPos(rootFunc(f).Pos()) || !p.FirstParty(f) {
			continue
		}
		for _, b := range f.Blocks {
			for _, ins := range b.Instrs {
				st, ok := ins.(*ssa.Store)
				if !ok {
					continue
				}
				fa, ok := st.Addr.(*ssa.FieldAddr)
				if !ok {
					continue
				}
				tn, isC := cont[fieldOf(fa)]
				if !isC {
					continue
				}
				n++
				root := rootFunc(f)
				okSite := (root.Name() == "Populate" && f == root) || (root.Name() == "UnmarshalFn" && f.Parent() == root)
				c.Ob("R10.1", tn+":writer:"+fnName(f), okSite, p.Pos(st.Pos()), "Container is written only by Populate (serving side) and by the UnmarshalFn closure")
			}
		}
	}
	c.Floor("R10.1", "stores to Container fields", n, 8)
}

func c10Hasher(c *Check) {
	p := c.P
	w := p.Func("share/shwap/p2p/bitswap", "hasher", "write")
	ext := p.Func("share/shwap/p2p/bitswap", "", "extractFromCID")
	val := p.Func("share/shwap/p2p/bitswap", "", "validateCID")
	sum := p.Func("share/shwap/p2p/bitswap", "hasher", "Sum")
	reset := p.Func("share/shwap/p2p/bitswap", "hasher", "Reset")
	fetch := p.Func("share/shwap/p2p/bitswap", "", "fetch")
	if w == nil || ext == nil || val == nil || sum == nil || reset == nil || fetch == nil {
		c.Unresolved("R10.2", "hasher.write/extractFromCID/validateCID/Sum/Reset/fetch not found")
		return
	}
	for _, f := range []*ssa.Function{w, ext, val, sum, reset, fetch} {
		c.SawFunc(f)
	}
	// h.sum = id only behind UnmarshalFn success
	n := 0
	for _, b := range w.Blocks {
		for _, ins := range b.Instrs {
			st, ok := ins.(*ssa.Store)
			if !ok {
				continue
			}
			fa, ok := st.Addr.(*ssa.FieldAddr)
			if !ok || fieldOf(fa) == nil || fieldOf(fa).Name() != "sum" {
				continue
			}
			n++
			cut := callGates(func(g *ssa.Call, idx int) GateKind {
				if f := fieldOfAddr(g.Call.Value); f != nil && f.Name() == "UnmarshalFn" {
					return GateErr
				}
				return NotGate
			})
			res := gateWalk(p, w, map[*ssa.BasicBlock]bool{b: true}, cut, nil)
			c.Ob("R10.2", "hasher.write: sum set", !res.Reached, p.Pos(st.Pos()), "the digest is set only across the registered UnmarshalFn's success edge", res.Witness...)
			sl := backSlice(st.Val, SliceOpt{CallArgs: true})
			fromCID := sl.Has(func(v ssa.Value) bool {
				g, ok := v.(*ssa.Call)
				return ok && g.Call.StaticCallee() == ext
			})
			c.Ob("R10.2", "hasher.write: sum is the CID's id", fromCID, p.Pos(st.Pos()), "the digest is the id extracted from the block's inner CID")
			// the same id is what UnmarshalFn received
			sameID := false
			for _, bb := range w.Blocks {
				for _, i2 := range bb.Instrs {
					if g, ok := i2.(*ssa.Call); ok {
						if f := fieldOfAddr(g.Call.Value); f != nil && f.Name() == "UnmarshalFn" && len(g.Call.Args) == 2 && g.Call.Args[1] == st.Val {
							sameID = true
						}
					}
				}
			}
			c.Ob("R10.2", "hasher.write: verified id == digest", sameID, p.Pos(st.Pos()), "the id handed to UnmarshalFn is the value stored as digest")
		}
	}
	c.Floor("R10.2", "stores to hasher.sum in write", n, 1)
	// extractFromCID behind validateCID
	res := gateWalk(p, ext, blocksOfReturns(successReturns(ext)), callGates(func(g *ssa.Call, idx int) GateKind {
		if g.Call.StaticCallee() == val {
			return GateErr
		}
		return NotGate
	}), nil)
	c.Ob("R10.2", "extractFromCID behind validateCID", !res.Reached, p.Pos(ext.Pos()), "an id is extracted only from a CID that passed validateCID", res.Witness...)
	// validateCID: three rejecting comparisons
	want := map[string]bool{"Version": false, "MhType": false, "MhLength": false}
	cut, _ := failGates(val, func(cond ssa.Value, sl *Slice) bool {
		hit := false
		for k := range want {
			if sl.HasFieldNamed("Prefix", k) {
				want[k] = true
				hit = true
			}
		}
		return hit
	})
	_ = cut
	for _, k := range []string{"Version", "MhType", "MhLength"} {
		c.Ob("R10.2", "validateCID rejects on "+k, want[k], p.Pos(val.Pos()), "a rejecting comparison on cid.Prefix()."+k+" exists")
	}
	for _, pair := range [][2]string{{"MhType", "mhCode"}, {"MhLength", "idSize"}} {
		found := false
		for _, b := range val.Blocks {
			if ifi, ok := b.Instrs[len(b.Instrs)-1].(*ssa.If); ok {
				sl := backSlice(ifi.Cond, SliceOpt{CallArgs: true})
				if sl.HasFieldNamed("Prefix", pair[0]) && sl.HasFieldNamed("blockSpec", pair[1]) {
					found = true
				}
			}
		}
		c.Ob("R10.2", "validateCID compares "+pair[0]+" with spec."+pair[1], found, p.Pos(val.Pos()), "compared against the registered spec of the CID's codec")
	}
	// Sum / Reset
	okSum := true
	for _, r := range returnsOf(sum) {
		f := fieldOfAddr(r.Results[0])
		if f == nil || f.Name() != "sum" {
			okSum = false
		}
	}
	c.Ob("R10.2", "hasher.Sum returns sum", okSum, p.Pos(sum.Pos()), "Sum returns only the stored digest")
	okReset := false
	for _, b := range reset.Blocks {
		for _, ins := range b.Instrs {
			if st, ok := ins.(*ssa.Store); ok {
				if f := fieldOfAddr(st.Addr); f != nil && f.Name() == "sum" && isNilConst(st.Val) {
					okReset = true
				}
			}
		}
	}
	c.Ob("R10.2", "hasher.Reset clears sum", okReset, p.Pos(reset.Pos()), "a reused hasher cannot carry an earlier digest")
	// registry atomicity
	badStores := 0
	var los *ssa.Call
	for _, f := range p.FuncsOfPkg("share/shwap/p2p/bitswap") {
		for _, b := range f.Blocks {
			for _, ins := range b.Instrs {
				g, ok := ins.(ssa.CallInstruction)
				if !ok {
					continue
				}
				o := calleeObj(g.Common())
				if o == nil || pkgPathOf(o) != "sync" || recvNamed(o) == nil || recvNamed(o).Obj().Name() != "Map" {
					continue
				}
				gl, ok := g.Common().Args[0].(*ssa.Global)
				if !ok || gl.Name() != "unmarshalFns" {
					continue
				}
				switch o.Name() {
				case "Store", "Swap", "CompareAndSwap":
					badStores++
					c.Ob("R10.2", "registry "+o.Name()+"@"+fnName(f), false, p.Pos(g.Pos()), "the unmarshal registry is written non-atomically with respect to the duplicate check (use LoadOrStore)")
				case "LoadOrStore":
					if cl, ok := g.(*ssa.Call); ok && f == fetch {
						los = cl
					}
				}
			}
		}
	}
	c.Ob("R10.2", "registry written only via LoadOrStore", badStores == 0 && los != nil, p.Pos(fetch.Pos()), "fetch registers its UnmarshalFn with sync.Map.LoadOrStore")
	if los != nil {
		// defer Delete only on loaded == false
		for _, b := range fetch.Blocks {
			for _, ins := range b.Instrs {
				d, ok := ins.(*ssa.Defer)
				if !ok {
					continue
				}
				o := calleeObj(d.Common())
				if o == nil || o.Name() != "Delete" {
					continue
				}
				cut := func(bb *ssa.BasicBlock, ifi *ssa.If) (bool, bool) {
					a := stripNot(ifi.Cond)
					if ex, ok := a.Base.(*ssa.Extract); ok && ex.Tuple == ssa.Value(los) && ex.Index == 1 {
						// loaded true side is cut (we want Delete unreachable there)
						return a.Neg, !a.Neg
					}
					return false, false
				}
				res := gateWalk(p, fetch, map[*ssa.BasicBlock]bool{b: true}, cut, nil)
				c.Ob("R10.2", "deferred Delete on the original requester only", !res.Reached, p.Pos(d.Pos()), "the registry entry is deleted only by the fetch that stored it", res.Witness...)
			}
		}
	}
}

func constUint(v ssa.Value) (uint64, bool) {
	k, ok := v.(*ssa.Const)
	if !ok || k.Value == nil {
		return 0, false
	}
	return constant.Uint64Val(constant.ToInt(k.Value))
}

func c10Registry(c *Check, blocks []*types.Named) {
	p := c.P
	type reg struct {
		mh, codec uint64
		idSize    int64
		builder   *types.Named
		pos       string
	}
	var regs []reg
	for _, f := range p.FuncsOfPkg("share/shwap/p2p/bitswap") {
		for _, b := range f.Blocks {
			for _, ins := range b.Instrs {
				g, ok := ins.(*ssa.Call)
				if !ok || g.Call.StaticCallee() == nil || g.Call.StaticCallee().Name() != "registerBlock" {
					continue
				}
				a := g.Call.Args
				r := reg{pos: p.Pos(g.Pos())}
				var ok1, ok2 bool
				r.mh, ok1 = constUint(a[0])
				r.codec, ok2 = constUint(a[1])
				if k, ok := a[3].(*ssa.Const); ok && k.Value != nil {
					r.idSize = k.Int64()
				}
				if !ok1 || !ok2 {
					c.Ob("R10.3", "registerBlock@"+r.pos, false, r.pos, "multihash code / codec are not constants")
					continue
				}
				// builder's concrete result
				var bf *ssa.Function
				switch x := a[4].(type) {
				case *ssa.Function:
					bf = x
				case *ssa.MakeClosure:
					bf, _ = x.Fn.(*ssa.Function)
				}
				if bf != nil {
					for _, bb := range bf.Blocks {
						for _, i2 := range bb.Instrs {
							if mi, ok := i2.(*ssa.MakeInterface); ok {
								if n := derefNamed(mi.X.Type()); n != nil && n.Obj().Pkg().Path() == pkgBitswap {
									r.builder = n
								}
							}
						}
					}
				}
				regs = append(regs, r)
			}
		}
	}
	c.Floor("R10.3", "registerBlock calls", len(regs), 4)
	seenMh, seenCodec := map[uint64]string{}, map[uint64]string{}
	for _, r := range regs {
		nm := "?"
		if r.builder != nil {
			nm = r.builder.Obj().Name()
		}
		_, d1 := seenMh[r.mh]
		_, d2 := seenCodec[r.codec]
		_, d3 := seenMh[r.codec]
		_, d4 := seenCodec[r.mh]
		c.Ob("R10.3", nm+":distinct codes", !d1 && !d2 && !d3 && !d4, r.pos, fmt.Sprintf("multihash code %#x and codec %#x are used by one Block type only", r.mh, r.codec))
		seenMh[r.mh], seenCodec[r.codec] = nm, nm
	}
	sort.Slice(blocks, func(i, j int) bool { return blocks[i].Obj().Name() < blocks[j].Obj().Name() })
	for _, bt := range blocks {
		name := bt.Obj().Name()
		var r *reg
		for i := range regs {
			if regs[i].builder == bt {
				r = &regs[i]
			}
		}
		if r == nil {
			c.Ob("R10.3", name+":registered", false, p.Pos(bt.Obj().Pos()), "Block type has no registerBlock call whose builder returns it")
			continue
		}
		cid := p.Method(bt, "CID")
		if cid == nil {
			c.Unresolved("R10.3", name+".CID not found")
			continue
		}
		c.SawFunc(cid)
		found := false
		for _, b := range cid.Blocks {
			for _, ins := range b.Instrs {
				g, ok := ins.(*ssa.Call)
				if !ok || g.Call.StaticCallee() == nil || g.Call.StaticCallee().Name() != "encodeToCID" {
					continue
				}
				found = true
				mh, ok1 := constUint(g.Call.Args[1])
				codec, ok2 := constUint(g.Call.Args[2])
				c.Ob("R10.3", name+":CID constants", ok1 && ok2 && mh == r.mh && codec == r.codec, p.Pos(g.Pos()),
					fmt.Sprintf("CID() encodes with (mh %#x, codec %#x); registry has (mh %#x, codec %#x)", mh, codec, r.mh, r.codec))
				// encodes the block's own ID
				sl := backSlice(g.Call.Args[0], SliceOpt{})
				idF := structField(bt, "ID")
				c.Ob("R10.3", name+":CID encodes ID", sl.Has(func(v ssa.Value) bool {
					fa, ok := v.(*ssa.FieldAddr)
					return ok && fieldOf(fa) == idF
				}), p.Pos(g.Pos()), "CID() encodes the block's own ID field")
			}
		}
		if !found {
			c.Ob("R10.3", name+":CID constants", false, p.Pos(cid.Pos()), "CID() does not call encodeToCID")
		}
		// id size
		idF := structField(bt, "ID")
		if idF != nil {
			if idn := derefNamed(idF.Type()); idn != nil {
				want := c18ConstIntIn(p, "share/shwap", idn.Obj().Name()+"Size")
				c.Ob("R10.3", name+":id size", want > 0 && want == r.idSize, r.pos, fmt.Sprintf("registered id size %d == shwap.%sSize (%d)", r.idSize, idn.Obj().Name(), want))
			}
		}
	}
}

func c18ConstIntIn(p *Program, rel, name string) int64 {
	pk := p.Pkg(rel)
	if pk == nil {
		return -1
	}
	if k, ok := pk.Types.Scope().Lookup(name).(*types.Const); ok {
		if v, ok := constant.Int64Val(constant.ToInt(k.Val())); ok {
			return v
		}
	}
	return -1
}

func c10Serving(c *Check) {
	p := c.P
	get := p.Func("share/shwap/p2p/bitswap", "Blockstore", "Get")
	if get == nil {
		c.Unresolved("R10.4", "(*Blockstore).Get not found")
		return
	}
	c.SawFunc(get)
	tg := blocksWhere(get, func(ins ssa.Instruction) bool {
		g, ok := ins.(*ssa.Call)
		return ok && g.Call.StaticCallee() != nil && g.Call.StaticCallee().Name() == "convertBitswap"
	})
	c.Floor("R10.4", "convertBitswap calls in Blockstore.Get", len(tg), 1)
	res := gateWalk(p, get, tg, callGates(func(g *ssa.Call, idx int) GateKind {
		if g.Call.IsInvoke() && g.Call.Method.Name() == "Populate" {
			return GateErr
		}
		return NotGate
	}), nil)
	c.Ob("R10.4", "convert after Populate", !res.Reached, p.Pos(get.Pos()), "a block is served only after Populate succeeded", res.Witness...)
	pairAcquireRelease(c, "R10.4", get, func(g *ssa.Call) bool { return g.Call.IsInvoke() && g.Call.Method.Name() == "GetByHeight" }, "Close", "accessor")
	_ = strings.Contains
}
