package main

import (
	"encoding/json"
	"flag"
	"fmt"
	"os"
	"path/filepath"
	"sort"
	"strconv"
	"strings"
)

type propDef struct {
	id          string
	run         func(c *Check)
	explanation string
	assumptions []string
}

var props = map[string]*propDef{}

func register(id string, run func(c *Check), explanation string, assumptions ...string) {
	wrapped := run
	if pk := errDisciplinePkgs[id]; len(pk) > 0 {
		n := strings.TrimLeft(strings.TrimPrefix(id, "C"), "0")
		wrapped = func(c *Check) {
			run(c)
			errorDiscipline(c, "R"+n+".E", pk...)
		}
		explanation += " R" + n + ".E error discipline in the packages this property rests on (" + strings.Join(pk, ", ") + "): no call's error result is discarded (deferred, go'd or unused) outside the reasoned exemption table, and a value produced together with an error is returned only across that call's success edge or together with that error."
	}
	props[id] = &propDef{id: id, run: wrapped, explanation: explanation, assumptions: assumptions}
}

func main() {
	prop := flag.String("prop", "", "property id (C01..C20) or 'all'")
	tier := flag.String("tier", "quick", "quick|thorough")
	repo := flag.String("repo", "/repo", "repository root")
	verif := flag.String("verif", "/verif", "verif root (evidence, known findings)")
	replay := flag.String("replay", "", "replay file: re-evaluate exactly that rule instance")
	overlay := flag.String("overlay", "", "JSON file {repo path: replacement file path} (self-tests only)")
	patch := flag.String("patch", "", "unified diff evaluated through an overlay, /repo itself is not touched (seeded-change testing only; writes no evidence)")
	warm := flag.Bool("warm", false, "only load the program (warms the build cache)")
	dump := flag.String("dump", "", "debug: print SSA of functions whose name contains this string")
	selftest := flag.Bool("selftest", false, "run the both-ways self-test for -prop (mutants + benign edits)")
	flag.Parse()

	if v := os.Getenv("VERIF_TIER"); v != "" && *tier == "" {
		*tier = v
	}
	seed := int64(0)
	if v := os.Getenv("VERIF_SEED"); v != "" {
		seed, _ = strconv.ParseInt(v, 10, 64)
	}
	if *selftest {
		os.Exit(runSelfTests(*prop, *repo, *verif))
	}
	replayKey := ""
	if *replay != "" {
		b, err := os.ReadFile(*replay)
		if err != nil {
			fmt.Println("ERROR", err)
			os.Exit(2)
		}
		var r struct{ Property, Key string }
		if err := json.Unmarshal(b, &r); err != nil {
			fmt.Println("ERROR", err)
			os.Exit(2)
		}
		*prop, replayKey = r.Property, r.Key
	}
	var ov map[string][]byte
	if *overlay != "" {
		b, err := os.ReadFile(*overlay)
		if err != nil {
			fmt.Println("ERROR", err)
			os.Exit(2)
		}
		m := map[string]string{}
		if err := json.Unmarshal(b, &m); err != nil {
			fmt.Println("ERROR", err)
			os.Exit(2)
		}
		ov = map[string][]byte{}
		for k, v := range m {
			c, err := os.ReadFile(v)
			if err != nil {
				fmt.Println("ERROR", err)
				os.Exit(2)
			}
			ov[k] = c
		}
	}
	if *patch != "" {
		pov, err := patchOverlay(*repo, *patch, false)
		if err != nil {
			fmt.Println("PATCH-DOES-NOT-APPLY", err)
			os.Exit(2)
		}
		ov = pov
	}
	p, err := loadProgram(*repo, ov, false)
	if err != nil {
		fmt.Printf("UNRESOLVED load: %v\n", err)
		os.Exit(2)
	}
	if *dump != "" {
		for _, f := range p.SrcFuncs {
			if strings.Contains(f.String(), *dump) {
				f.WriteTo(os.Stdout)
			}
		}
		return
	}
	if *warm {
		fmt.Printf("warm: %d first-party packages, %d source functions, %.1fs\n", len(p.Pkgs), len(p.SrcFuncs), p.LoadS)
		return
	}
	var ids []string
	if *prop == "all" {
		for id := range props {
			if strings.HasPrefix(id, "X") {
				continue // exploration-only pseudo properties
			}
			ids = append(ids, id)
		}
		sort.Strings(ids)
	} else {
		ids = []string{*prop}
	}
	exit := 0
	for _, id := range ids {
		pd := props[id]
		if pd == nil {
			fmt.Printf("UNRESOLVED unknown property %q\n", id)
			os.Exit(2)
		}
		code := runProp(pd, p, *tier, *repo, *verif, seed, replayKey)
		if code == 1 || (code == 2 && exit == 0) {
			exit = code
		}
	}
	os.Exit(exit)
}

func runProp(pd *propDef, p *Program, tier, repo, verif string, seed int64, replayKey string) (code int) {
	c := newCheck(pd.id, tier, p)
	c.replayKey = replayKey
	defer func() {
		if r := recover(); r != nil {
			fmt.Printf("UNRESOLVED %s checker panic: %v\n", pd.id, r)
			code = 2
			if os.Getenv("CELCHECK_DEBUG") != "" {
				panic(r)
			}
		}
	}()
	pd.run(c)
	if tier == "thorough" && replayKey == "" {
		res, ok := runMutantSet(pd, repo, verif)
		c.selfTest = res
		if !ok {
			c.Unresolved("SELFTEST", "both-ways self-test failed (a breaking mutant was missed, a benign edit raised an alarm, or a mutant failed to load)")
		}
	}
	return c.Finish(verif, seed, pd.explanation, pd.assumptions)
}

func verifPath(verif string, parts ...string) string {
	return filepath.Join(append([]string{verif}, parts...)...)
}
