package main

// E5 - PAIR: acquire/release on all exits.

import (
	"strings"
	"go/types"
	"fmt"

	"golang.org/x/tools/go/ssa"
)

// valueHolds: v is r, a load of a local that r was stored into, or a free
// variable bound to such a local.
func derivesFrom(v, r ssa.Value) bool {
	if v == r {
		return true
	}
	sl := backSlice(v, SliceOpt{ThroughFreeVars: true, CallArgs: true, NoAddrCallArgs: true})
	return sl.Vals[r]
}

// releasesParam: fn calls method name on its idx-th parameter (directly, by
// defer or inside a closure) on some path - one-level summary of close helpers
// such as utils.CloseAndLog.
func releasesParam(fn *ssa.Function, idx int, method string) bool {
	if fn == nil || fn.Blocks == nil || idx >= len(fn.Params) {
		return false
	}
	prm := fn.Params[idx]
	fns := append([]*ssa.Function{fn}, Closures(fn)...)
	for _, f := range fns {
		for _, b := range f.Blocks {
			for _, ins := range b.Instrs {
				ci, ok := ins.(ssa.CallInstruction)
				if !ok {
					continue
				}
				if callNamed(ci, method) && len(callRecvArgs(ci)) > 0 && derivesFrom(callRecvArgs(ci)[0], prm) {
					return true
				}
			}
		}
	}
	return false
}

func callNamed(ci ssa.CallInstruction, method string) bool {
	cm := ci.Common()
	if cm.IsInvoke() {
		return cm.Method.Name() == method
	}
	if f := cm.StaticCallee(); f != nil {
		return f.Name() == method
	}
	return false
}

// callRecvArgs returns receiver followed by arguments for both call modes.
func callRecvArgs(ci ssa.CallInstruction) []ssa.Value {
	cm := ci.Common()
	if cm.IsInvoke() {
		return append([]ssa.Value{cm.Value}, cm.Args...)
	}
	return cm.Args
}

// isReleaseOf: instruction ins releases resource r by calling method on it,
// deferring such a call, deferring/calling a closure that does, or handing it to
// a first-party helper that does.
func isReleaseOf(p *Program, ins ssa.Instruction, r ssa.Value, method string) bool {
	ci, ok := ins.(ssa.CallInstruction)
	if !ok {
		return false
	}
	if _, isGo := ci.(*ssa.Go); isGo {
		return false
	}
	cm := ci.Common()
	args := callRecvArgs(ci)
	if callNamed(ci, method) && len(args) > 0 && derivesFrom(args[0], r) {
		return true
	}
	// closure invoked/deferred
	if mc, ok := cm.Value.(*ssa.MakeClosure); ok {
		cf := mc.Fn.(*ssa.Function)
		for i, bnd := range mc.Bindings {
			if !derivesFrom(bnd, r) && !holdsValue(bnd, r) {
				continue
			}
			// closure body calls method on that free variable
			for _, f := range append([]*ssa.Function{cf}, Closures(cf)...) {
				for _, b := range f.Blocks {
					for _, i2 := range b.Instrs {
						c2, ok := i2.(ssa.CallInstruction)
						if !ok {
							continue
						}
						a2 := callRecvArgs(c2)
						if callNamed(c2, method) && len(a2) > 0 && i < len(cf.FreeVars) && backSlice(a2[0], SliceOpt{}).Vals[cf.FreeVars[i]] {
							return true
						}
						// or passes it to a helper that closes
						if g := c2.Common().StaticCallee(); g != nil && p.FirstParty(g) {
							for k, a := range c2.Common().Args {
								if i < len(cf.FreeVars) && backSlice(a, SliceOpt{}).Vals[cf.FreeVars[i]] && releasesParam(g, k, method) {
									return true
								}
							}
						}
					}
				}
			}
		}
	}
	// helper
	if g := cm.StaticCallee(); g != nil && p.FirstParty(g) {
		for k, a := range cm.Args {
			if derivesFrom(a, r) && releasesParam(g, k, method) {
				return true
			}
		}
	}
	return false
}

// holdsValue: addr is a local into which r is stored.
func holdsValue(addr, r ssa.Value) bool {
	al, ok := addr.(*ssa.Alloc)
	if !ok || al.Referrers() == nil {
		return false
	}
	for _, ref := range *al.Referrers() {
		if st, ok := ref.(*ssa.Store); ok && st.Addr == ssa.Value(al) && derivesFrom(st.Val, r) {
			return true
		}
	}
	return false
}

// pairAcquireRelease checks every acquire call in fn: from its success edge,
// every return that does not hand the resource to the caller passes a release.
func pairAcquireRelease(c *Check, rule string, fn *ssa.Function, isAcquire func(*ssa.Call) bool, method, what string) int {
	p := c.P
	n := 0
	for _, b := range fn.Blocks {
		for _, ins := range b.Instrs {
			a, ok := ins.(*ssa.Call)
			if !ok || !isAcquire(a) {
				continue
			}
			n++
			var r, errV ssa.Value = a, nil
			if refs := a.Referrers(); refs != nil {
				for _, ref := range *refs {
					if ex, ok := ref.(*ssa.Extract); ok {
						if ex.Index == 0 {
							r = ex
						} else if isErrorType(ex.Type()) {
							errV = ex
						}
					}
				}
			}
			release := map[*ssa.BasicBlock]bool{}
			for _, bb := range fn.Blocks {
				for _, i2 := range bb.Instrs {
					if isReleaseOf(p, i2, r, method) {
						release[bb] = true
					}
				}
			}
			targets := map[*ssa.BasicBlock]bool{}
			for _, ret := range returnsOf(fn) {
				transfers := false
				for _, rv := range ret.Results {
					// the caller becomes the owner only if what it gets can still be released:
					// a value computed from the resource (a row read from an accessor) is not a hand-over
					if derivesFrom(rv, r) && (typeHasMethod(p, rv.Type(), method) || types.Identical(rv.Type(), r.Type())) {
						transfers = true
					}
				}
				// a release in the return's own block precedes the return
				if !transfers && !release[ret.Block()] {
					targets[ret.Block()] = true
				}
			}
			cut := func(bb *ssa.BasicBlock, ifi *ssa.If) (bool, bool) {
				if errV == nil {
					return false, false
				}
				if x, eq, ok := nilTest(ifi.Cond); ok && derivesFrom(x, errV) {
					// cut the err != nil side: nothing was acquired there
					return !eq, eq
				}
				at := stripNot(ifi.Cond)
				if g, ok := at.Base.(*ssa.Call); ok && g.Call.StaticCallee() != nil && g.Call.StaticCallee().String() == "errors.Is" && derivesFrom(g.Call.Args[0], errV) {
					return !at.Neg, at.Neg
				}
				return false, false
			}
			// a release in the acquire's own block after the acquire (defer right away) discharges everything
			if release[b] && releaseAfter(p, b, a, r, method) {
				c.Ob(rule, fmt.Sprintf("%s:%s acquired by %s", fnName(fn), what, calleeNameCI(a)), true, p.Pos(a.Pos()), "released (deferred) right after acquisition")
				continue
			}
			res := gateWalkFrom(p, fn, b, targets, cut, release)
			c.Ob(rule, fmt.Sprintf("%s:%s acquired by %s", fnName(fn), what, calleeNameCI(a)), !res.Reached, p.Pos(a.Pos()),
				fmt.Sprintf("from the success edge of the acquisition every return passes %s (or hands the %s to the caller)", method, what), res.Witness...)
		}
	}
	return n
}

func releaseAfter(p *Program, b *ssa.BasicBlock, a ssa.Instruction, r ssa.Value, method string) bool {
	seen := false
	for _, ins := range b.Instrs {
		if ins == a {
			seen = true
			continue
		}
		if seen && isReleaseOf(p, ins, r, method) {
			return true
		}
	}
	return false
}

func calleeNameCI(ci ssa.CallInstruction) string {
	cm := ci.Common()
	if cm.IsInvoke() {
		return cm.Method.Name()
	}
	if f := cm.StaticCallee(); f != nil {
		return f.Name()
	}
	return "?"
}

// typeHasMethod: t (or *t) has a method of that name in its method set.
func typeHasMethod(p *Program, t types.Type, name string) bool {
	for _, tt := range []types.Type{t, types.NewPointer(t)} {
		ms := p.SSA.MethodSets.MethodSet(tt)
		for i := 0; i < ms.Len(); i++ {
			if strings.EqualFold(ms.At(i).Obj().Name(), name) {
				return true
			}
		}
	}
	return false
}
