package main

import (
	"fmt"
	"go/types"
	"strings"

	"golang.org/x/tools/go/ssa"
)

func init() {
	register("C03", runC03,
		"Structural necessary conditions of 'a light node calls a block available only after verifying its whole sample set' (histories, concurrent calls, restarts and the distribution of coordinates are not decided). R3.1: a coordinate is appended to SamplingResult.Available only in SharesAvailable, only across !sample.IsEmpty() for the sample at the same index as the requested coordinate, and Remaining is assigned only the complement collected on the IsEmpty side (or a fresh draw); the decoded persisted result is the one other writer. R3.2: after the getter call a nil return is reachable only across 'no failed samples' and across a successful datastore Put; every non-early return crosses the Put; with 'the getter returned nothing' assumed no success return is reachable (path-sensitive walk). R3.3: sample coordinates are drawn with crypto/rand and package light does not import math/rand. R3.4: the per-height session is released on every exit of SharesAvailable and Prune. R3.5: the coordinates requested are exactly the persisted Remaining set, and a fresh set is drawn only when no result is stored. R3.6 (dependency): what 'retrieved with a valid proof' means is the getter contract - the bitswap container rule R10.1 is re-evaluated here because the light node's getter is the bitswap getter.",
		"getters return slices positionally aligned with the requested coordinates (documented contract of shwap.Getter)")
}

const pkgLight = modPath + "/share/availability/light"

func runC03(c *Check) {
	p := c.P
	c.Rule("R3.1", "Available grows only from non-empty samples at the same index; Remaining is the complement")
	c.Rule("R3.2", "success only with no failed samples, after persisting, and never when nothing was returned")
	c.Rule("R3.3", "coordinates drawn with crypto/rand")
	c.Rule("R3.4", "per-height session released on all exits")
	c.Rule("R3.5", "retries request exactly the persisted Remaining set; fresh draw only when nothing is stored")
	c.Rule("R3.6", "getter contract: bitswap containers only after verification (R10.1)")
	sa := p.Func("share/availability/light", "ShareAvailability", "SharesAvailable")
	if sa == nil {
		c.Unresolved("R3.1", "light.(*ShareAvailability).SharesAvailable not found")
		return
	}
	c.SawFunc(sa)
	// the getter call
	var get *ssa.Call
	for _, b := range sa.Blocks {
		for _, ins := range b.Instrs {
			if g, ok := ins.(*ssa.Call); ok && g.Call.IsInvoke() && g.Call.Method.Name() == "GetSamples" {
				get = g
			}
		}
	}
	if get == nil {
		c.Unresolved("R3.1", "GetSamples call in SharesAvailable not found")
		return
	}
	idxsArg := get.Call.Args[len(get.Call.Args)-1]
	var smpls ssa.Value
	for _, ref := range *get.Referrers() {
		if ex, ok := ref.(*ssa.Extract); ok && ex.Index == 0 {
			smpls = ex
		}
	}
	isFieldStore := func(ins ssa.Instruction, field string) *ssa.Store {
		st, ok := ins.(*ssa.Store)
		if !ok {
			return nil
		}
		fa, ok := st.Addr.(*ssa.FieldAddr)
		if !ok || fieldOf(fa) == nil || fieldOf(fa).Name() != field || derefNamed(fa.X.Type()) == nil || derefNamed(fa.X.Type()).Obj().Name() != "SamplingResult" {
			return nil
		}
		return st
	}
	emptyCut := func(wantEmpty bool) EdgeCut {
		return callGates(func(g *ssa.Call, _ int) GateKind {
			o := calleeObj(&g.Call)
			if o == nil || o.Name() != "IsEmpty" || len(g.Call.Args) == 0 {
				return NotGate
			}
			// on an element of the getter's result
			if smpls == nil || !backSlice(g.Call.Args[0], SliceOpt{}).Vals[smpls] {
				return NotGate
			}
			if wantEmpty {
				return GateTrue
			}
			return GateFalse
		})
	}
	nAvail, nRem := 0, 0
	for _, f := range p.FuncsOfPkg("share/availability/light") {
		for _, b := range f.Blocks {
			for _, ins := range b.Instrs {
				if st := isFieldStore(ins, "Available"); st != nil {
					nAvail++
					if f != sa {
						c.Ob("R3.1", "Available written@"+fnName(f), false, p.Pos(st.Pos()), "SamplingResult.Available is written outside SharesAvailable")
						continue
					}
					res := gateWalk(p, sa, map[*ssa.BasicBlock]bool{b: true}, emptyCut(false), nil)
					c.Ob("R3.1", "Available append gated", !res.Reached, p.Pos(st.Pos()), "a coordinate becomes available only across !IsEmpty() of a sample returned by the getter", res.Witness...)
					// same index: the appended coordinate reads idxs[i] with the i of the smpls loop
					sl := backSlice(st.Val, SliceOpt{CallArgs: true})
					sameIdx := false
					for v := range sl.Vals {
						ia, ok := v.(*ssa.IndexAddr)
						if !ok || !backSlice(ia.X, SliceOpt{}).Vals[valueBase(idxsArg)] && ia.X != idxsArg {
							continue
						}
						// the index is the induction variable of the loop ranging over smpls
						for _, bb := range sa.Blocks {
							for _, i2 := range bb.Instrs {
								if e2, ok := i2.(*ssa.IndexAddr); ok && smpls != nil && e2.X == smpls && e2.Index == ia.Index {
									sameIdx = true
								}
								if e2, ok := i2.(*ssa.Index); ok && smpls != nil && e2.X == smpls && e2.Index == ia.Index {
									sameIdx = true
								}
							}
						}
					}
					c.Ob("R3.1", "Available append index", sameIdx, p.Pos(st.Pos()), "the coordinate marked available is idxs[i] for the same i as the non-empty sample smpls[i]")
				}
				if st := isFieldStore(ins, "Remaining"); st != nil {
					nRem++
					if f != sa {
						// constructor of a fresh result
						c.Ob("R3.1", "Remaining written@"+fnName(f), f.Name() == "NewSamplingResult", p.Pos(st.Pos()), "Remaining is written by the fresh draw only")
						continue
					}
					// value: the slice appended to on the IsEmpty side
					sl := backSlice(st.Val, SliceOpt{CallArgs: true})
					okComp := false
					for v := range sl.Vals {
						g, ok := v.(*ssa.Call)
						if !ok {
							continue
						}
						if bi, ok := g.Call.Value.(*ssa.Builtin); ok && bi.Name() == "append" {
							res := gateWalk(p, sa, map[*ssa.BasicBlock]bool{g.Block(): true}, emptyCut(true), nil)
							if !res.Reached {
								okComp = true
							}
						}
					}
					c.Ob("R3.1", "Remaining is the failed set", okComp, p.Pos(st.Pos()), "Remaining is assigned the coordinates collected across IsEmpty() == true")
				}
			}
		}
	}
	c.Floor("R3.1", "stores to Available", nAvail, 1)
	c.Floor("R3.1", "stores to Remaining", nRem, 2)
	// a result loaded from the datastore is trusted only after its size was compared with the configured amount
	_, sizeGates := failGates(sa, func(cond ssa.Value, sl *Slice) bool {
		return sl.HasFieldNamed("", "SampleAmount") && sl.HasFieldNamed("SamplingResult", "Remaining") && sl.HasFieldNamed("SamplingResult", "Available")
	})
	c.Ob("R3.5", "stored result sized against the configured amount", len(sizeGates) > 0, p.Pos(sa.Pos()),
		"a rejecting branch compares len(Remaining)+len(Available) of the loaded result with params.SampleAmount (a stored result with fewer coordinates than configured cannot report success)")
	// ... and on every path: from the successful decode of a stored result no success return is
	// reachable without passing that size test (a fast path in front of it would trust a result
	// sampled under a smaller configured amount)
	var unm *ssa.Call
	for _, b := range sa.Blocks {
		for _, ins := range b.Instrs {
			if g, ok := ins.(*ssa.Call); ok && calleeObj(&g.Call) != nil && calleeObj(&g.Call).Name() == "Unmarshal" {
				unm = g
			}
		}
	}
	if unm != nil {
		sizeBlocks := map[*ssa.BasicBlock]bool{}
		for _, b := range sa.Blocks {
			if ifi, ok := b.Instrs[len(b.Instrs)-1].(*ssa.If); ok {
				sl := backSlice(ifi.Cond, SliceOpt{CallArgs: true})
				if sl.HasFieldNamed("", "SampleAmount") && sl.HasFieldNamed("SamplingResult", "Remaining") && sl.HasFieldNamed("SamplingResult", "Available") {
					sizeBlocks[b] = true
				}
			}
		}
		okS, _ := errEdgesOfCall(sa, unm)
		succAll := blocksOfReturns(successReturns(sa))
		for _, s := range okS {
			res := gateWalkOpts(p, sa, succAll, nil, s, sizeBlocks)
			c.Ob("R3.5", "no success on a stored result before its size test", len(sizeBlocks) > 0 && !res.Reached, p.Pos(unm.Pos()),
				"after a stored result was decoded, every path to a success return passes the comparison of its size with params.SampleAmount", res.Witness...)
		}
	}
	// the persisted result carries this session's failures: Remaining is reassigned before the result is marshalled
	for _, b := range sa.Blocks {
		for idx, ins := range b.Instrs {
			g, ok := ins.(*ssa.Call)
			if !ok || calleeObj(&g.Call) == nil || calleeObj(&g.Call).Name() != "Marshal" || !p2pReach(sa, get.Block())[b] {
				continue
			}
			updated := false
			for _, b2 := range sa.Blocks {
				for i2, in2 := range b2.Instrs {
					if st := isFieldStore(in2, "Remaining"); st != nil {
						if (b2 == b && i2 < idx) || (b2 != b && b2.Dominates(b) && p2pReach(sa, get.Block())[b2]) {
							updated = true
						}
					}
				}
			}
			c.Ob("R3.1", "Remaining updated before persisting", updated, p.Pos(g.Pos()), "on every path from the getter call to json.Marshal of the result, Remaining has been reassigned (to the failed set, checked above)")
		}
	}

	// R3.2
	var afterGet []*ssa.Return
	reachAfter := p2pReach(sa, get.Block())
	for _, r := range returnsOf(sa) {
		if reachAfter[r.Block()] {
			afterGet = append(afterGet, r)
		}
	}
	var nilRets []*ssa.Return
	for _, r := range afterGet {
		if cls, _ := classifyReturn(r, errResultIndex(sa)); cls == retNil {
			nilRets = append(nilRets, r)
		}
	}
	c.Floor("R3.2", "success returns after the getter call", len(nilRets), 1)
	putCut := callGates(func(g *ssa.Call, _ int) GateKind {
		if o := calleeObj(&g.Call); o != nil && o.Name() == "Put" && strings.Contains(pkgPathOf(o), "datastore") {
			return GateErr
		}
		return NotGate
	})
	failCut := func(b *ssa.BasicBlock, ifi *ssa.If) (bool, bool) {
		// len(failed) > 0 : cut the false side (no failures)
		pk, neg := newKeyer(sa).predKey(ifi.Cond)
		if !strings.HasPrefix(pk, "(c:0 == len(") {
			return false, false
		}
		sl := backSlice(ifi.Cond, SliceOpt{CallArgs: true})
		isFailed := false
		for v := range sl.Vals {
			g, ok := v.(*ssa.Call)
			if !ok {
				continue
			}
			if bi, ok := g.Call.Value.(*ssa.Builtin); ok && bi.Name() == "append" {
				r := gateWalk(p, sa, map[*ssa.BasicBlock]bool{g.Block(): true}, emptyCut(true), nil)
				if !r.Reached {
					isFailed = true
				}
			}
		}
		if !isFailed {
			return false, false
		}
		// predKey true means len == 0 when !neg
		lenZeroWhenTrue := !neg
		return lenZeroWhenTrue, !lenZeroWhenTrue
	}
	for _, r := range nilRets {
		tg := map[*ssa.BasicBlock]bool{r.Block(): true}
		res := gateWalkOpts(p, sa, tg, failCut, get.Block(), nil)
		c.Ob("R3.2", "success only without failed samples", !res.Reached, p.Pos(r.Pos()), "after the getter call nil is returned only across len(failed) == 0", res.Witness...)
		res = gateWalkOpts(p, sa, tg, putCut, get.Block(), nil)
		c.Ob("R3.2", "success only after persisting", !res.Reached, p.Pos(r.Pos()), "nil is returned only across a successful datastore Put of the updated result", res.Witness...)
	}
	// every return after the loop over samples crosses Put, except the early "nothing returned" one
	putBlocks := blocksWhere(sa, func(ins ssa.Instruction) bool {
		g, ok := ins.(*ssa.Call)
		if !ok {
			return false
		}
		o := calleeObj(&g.Call)
		return o != nil && o.Name() == "Put" && strings.Contains(pkgPathOf(o), "datastore")
	})
	loopBlocks := blocksWhere(sa, func(ins ssa.Instruction) bool {
		ia, ok := ins.(*ssa.IndexAddr)
		return ok && smpls != nil && ia.X == smpls
	})
	for lb := range loopBlocks {
		tg := map[*ssa.BasicBlock]bool{}
		for _, r := range afterGet {
			tg[r.Block()] = true
		}
		res := gateWalkOpts(p, sa, minusBarrier(tg, putBlocks), nil, lb, putBlocks)
		// returns of Marshal failure happen before Put: they carry an error and change nothing persisted - accept error returns
		okPersist := true
		if res.Reached {
			// find whether the reached return is an error return caused by Marshal
			okPersist = false
			for _, r := range afterGet {
				if cls, _ := classifyReturn(r, errResultIndex(sa)); cls != retNil {
					okPersist = true
				}
			}
			rr := gateWalkOpts(p, sa, blocksOfReturns(nilRets), nil, lb, putBlocks)
			okPersist = !rr.Reached
		}
		c.Ob("R3.2", "verdict after persisting", okPersist, p.Pos(blockPos(lb)), "once samples were classified no verdict is returned without the result having been put to the datastore")
		break
	}
	// nothing returned => no success
	if smpls != nil {
		k := newKeyer(sa)
		var lenCall ssa.Value
		for _, b := range sa.Blocks {
			for _, ins := range b.Instrs {
				if g, ok := ins.(*ssa.Call); ok && isLenCall(g) && g.Call.Args[0] == smpls {
					lenCall = g
				}
			}
		}
		if lenCall == nil {
			c.Ob("R3.2", "nothing returned is not success", false, p.Pos(get.Pos()), "the number of returned samples is never examined")
		} else {
			seed := map[string]bool{eqKey("c:0", k.key(lenCall)): true}
			res := gateWalkFacts(p, sa, blocksOfReturns(nilRets), nil, get.Block(), nil, seed)
			c.Ob("R3.2", "nothing returned is not success", !res.Reached, p.Pos(get.Pos()), "assuming the getter returned no samples, no success return is reachable (whatever error it reported)", res.Witness...)
		}
	}
	// R3.3
	pk := p.Pkg("share/availability/light")
	badImport := ""
	for _, f := range pk.Syntax {
		if p.IsTestPos(f.Pos()) {
			continue
		}
		for _, im := range f.Imports {
			if im.Path.Value == `"math/rand"` || im.Path.Value == `"math/rand/v2"` {
				badImport = im.Path.Value
			}
		}
	}
	c.Ob("R3.3", "no math/rand in package light", badImport == "", "share/availability/light", "non-test files of package light do not import math/rand"+badImport)
	nsr := p.Func("share/availability/light", "", "NewSamplingResult")
	if nsr != nil {
		c.SawFunc(nsr)
		usesCrypto := false
		p.Reach([]*ssa.Function{nsr}, ReachOpt{MaxDepth: 3, SamePkgs: map[string]bool{pkgLight: true}}, func(n *reachNode, site ssa.CallInstruction) {
			if o := calleeObj(site.Common()); o != nil && pkgPathOf(o) == "crypto/rand" && o.Name() == "Int" {
				usesCrypto = true
			}
		})
		c.Ob("R3.3", "coordinates from crypto/rand", usesCrypto, p.Pos(nsr.Pos()), "NewSamplingResult draws coordinates through crypto/rand.Int")
	} else {
		c.Unresolved("R3.3", "NewSamplingResult not found")
	}
	// R3.4
	for _, name := range []string{"SharesAvailable", "Prune"} {
		f := p.Func("share/availability/light", "ShareAvailability", name)
		if f == nil {
			c.Unresolved("R3.4", name+" not found")
			continue
		}
		c.SawFunc(f)
		n := 0
		for _, b := range f.Blocks {
			for _, ins := range b.Instrs {
				g, ok := ins.(*ssa.Call)
				if !ok || calleeObj(&g.Call) == nil || calleeObj(&g.Call).Name() != "StartSession" {
					continue
				}
				n++
				var rel ssa.Value
				for _, ref := range *g.Referrers() {
					if ex, ok := ref.(*ssa.Extract); ok && ex.Index == 0 {
						rel = ex
					}
				}
				// a defer of the release func on every path from the success edge
				rels := blocksWhere(f, func(i2 ssa.Instruction) bool {
					d, ok := i2.(*ssa.Defer)
					return ok && d.Call.Value == rel
				})
				cut := func(bb *ssa.BasicBlock, ifi *ssa.If) (bool, bool) {
					if x, eq, ok := nilTest(ifi.Cond); ok {
						if ex, ok := x.(*ssa.Extract); ok && ex.Tuple == ssa.Value(g) {
							return !eq, eq
						}
					}
					return false, false
				}
				res := gateWalkFrom(p, f, b, blocksOfReturns(returnsOf(f)), cut, rels)
				c.Ob("R3.4", name+": session released", !res.Reached && len(rels) > 0, p.Pos(g.Pos()), "the session's release function is deferred on every path from StartSession's success edge", res.Witness...)
			}
		}
		c.Floor("R3.4", "StartSession calls in "+name, n, 1)
	}
	// the datastore holding the persisted results is used only under dsLk (concurrent calls for
	// different heights share it), every lock is released on all paths, nothing blocks under it
	la := newLockAnalysis(p, "share/availability/light")
	ng := la.checkGuarded(c, "R3.4", guardRule{modPath + "/share/availability/light", "ShareAvailability", []string{"ds"}, "light.ShareAvailability.dsLk",
		"the datastore of sampling results is shared by concurrent availability calls, pruning and Close", map[string]string{"light.NewShareAvailability": "constructor"}})
	c.Floor("R3.4", "accesses of ShareAvailability.ds", ng, 5)
	for _, f := range la.funcs {
		la.checkReleasedAtReturns(c, "R3.4", f)
	}
	la.checkNoBlockingUnderLock(c, "R3.4", nil)
	// R3.5
	idxSl := backSlice(idxsArg, SliceOpt{CallArgs: true})
	c.Ob("R3.5", "requested coordinates are Remaining", idxSl.HasFieldNamed("SamplingResult", "Remaining"), p.Pos(get.Pos()), "the coordinates handed to the getter are built from SamplingResult.Remaining")
	if nsr != nil {
		tg := blocksWhere(sa, func(ins ssa.Instruction) bool {
			g, ok := ins.(*ssa.Call)
			return ok && g.Call.StaticCallee() == nsr
		})
		// only on the datastore.ErrNotFound side
		cut := func(b *ssa.BasicBlock, ifi *ssa.If) (bool, bool) {
			a := stripNot(ifi.Cond)
			g, ok := a.Base.(*ssa.Call)
			if !ok || g.Call.StaticCallee() == nil || g.Call.StaticCallee().String() != "errors.Is" {
				return false, false
			}
			ld, ok := g.Call.Args[1].(*ssa.UnOp)
			if !ok {
				return false, false
			}
			gl, ok := ld.X.(*ssa.Global)
			if !ok || gl.Name() != "ErrNotFound" {
				return false, false
			}
			return !a.Neg, a.Neg
		}
		res := gateWalk(p, sa, tg, cut, nil)
		c.Ob("R3.5", "fresh draw only when nothing stored", !res.Reached && len(tg) == 1, p.Pos(sa.Pos()), "NewSamplingResult is reached only across errors.Is(err, datastore.ErrNotFound)", res.Witness...)
	}
	// R3.6
	vs := shwapVerifiers(c, "R3.6")
	blocks := bitswapBlockTypes(c, "R3.6")
	sub := newCheck(c.Prop, c.Tier, p)
	for _, bt := range blocks {
		if bt.Obj().Name() == "SampleBlock" {
			c10Unmarshal(sub, bt, vs)
		}
	}
	for _, f := range sub.findings {
		c.Ob("R3.6", f.Construct, false, f.Pos, f.Msg, f.Path...)
	}
	if len(sub.findings) == 0 {
		c.Ob("R3.6", "SampleBlock container", sub.evals > 0, "-", fmt.Sprintf("%d R10.1 obligations on the bitswap sample block", sub.evals))
	}
	// "retrieved with a valid proof for that block": the Sample verifier binds root, position and axis
	// (C01's R1.1/R1.2 evaluated on shwap.Sample are part of C03)
	sub2 := newCheck(c.Prop, c.Tier, p)
	ci := newCryptoInfo(p)
	nSample := 0
	for _, v := range vs {
		if v.recvT.Obj().Name() != "Sample" {
			continue
		}
		nSample++
		c.SawFunc(v.fn)
		c01PositionGate(sub2, ci, vs, v)
		c01RootGate(sub2, ci, vs, v)
	}
	c.Floor("R3.6", "Sample verifiers", nSample, 1)
	for _, f := range sub2.findings {
		c.Ob("R3.6", f.Construct, false, f.Pos, f.Msg, f.Path...)
	}
	if len(sub2.findings) == 0 {
		c.Ob("R3.6", "Sample verifier", sub2.evals > 0, "-", fmt.Sprintf("%d root/position/axis obligations on shwap.Sample", sub2.evals))
	}
	_ = types.Typ
}

// p2pReach: blocks reachable from b (inclusive).
func p2pReach(fn *ssa.Function, b *ssa.BasicBlock) map[*ssa.BasicBlock]bool {
	seen := map[*ssa.BasicBlock]bool{b: true}
	st := []*ssa.BasicBlock{b}
	for len(st) > 0 {
		x := st[len(st)-1]
		st = st[:len(st)-1]
		for _, s := range x.Succs {
			if !seen[s] {
				seen[s] = true
				st = append(st, s)
			}
		}
	}
	return seen
}
