package main

// Both-ways self-test (thorough tier). Each committed mutant is a one-place source
// edit (exact substring replacement in one file) that still type-checks; it is
// applied through a go/packages overlay - no copy of the repository is made and
// /repo is not touched - the whole program is re-loaded and the property's rules
// are re-run. A breaking mutant must make the expected rule fire on the expected
// construct; a benign mutant (rename, reorder, extract, log line) must make
// nothing fire. A mutant whose anchor text no longer exists in /repo is reported
// as stale and skipped (the tree changed; the rules themselves never match text).

import (
	"os/exec"
	"encoding/json"
	"fmt"
	"os"
	"path/filepath"
	"strings"
	"time"
)

type Mutant struct {
	Name   string   `json:"name"`
	File   string   `json:"file"` // repo-relative
	Old    string   `json:"old"`
	New    string   `json:"new"`
	Expect string   `json:"expect"` // substring of the finding key rule:construct ("" for benign)
	Benign bool     `json:"benign"`
	Why    string   `json:"why"`
	Props  []string `json:"props"` // benign set only: properties whose rules look at this file
	// alternative to file/old/new: a unified diff (path relative to /verif), applied to
	// copies of the files it names; reverse=true applies it backwards (used to revert a fix)
	Patch   string `json:"patch"`
	Reverse bool   `json:"reverse"`
}

// patchOverlay applies a unified diff to scratch copies of the files it names and
// returns the patched contents keyed by their path in repo.
func patchOverlay(repo, patchPath string, reverse bool) (map[string][]byte, error) {
	diff, err := os.ReadFile(patchPath)
	if err != nil {
		return nil, err
	}
	var files []string
	for _, ln := range strings.Split(string(diff), "\n") {
		if strings.HasPrefix(ln, "+++ b/") {
			files = append(files, strings.TrimSpace(strings.TrimPrefix(ln, "+++ b/")))
		}
	}
	if len(files) == 0 {
		return nil, fmt.Errorf("no files in patch")
	}
	tmp, err := os.MkdirTemp("", "celmut")
	if err != nil {
		return nil, err
	}
	defer os.RemoveAll(tmp)
	for _, f := range files {
		src, err := os.ReadFile(filepath.Join(repo, f))
		if err != nil {
			return nil, err
		}
		if err := os.MkdirAll(filepath.Dir(filepath.Join(tmp, f)), 0o755); err != nil {
			return nil, err
		}
		if err := os.WriteFile(filepath.Join(tmp, f), src, 0o644); err != nil {
			return nil, err
		}
	}
	args := []string{"apply"}
	if reverse {
		args = append(args, "-R")
	}
	abs, _ := filepath.Abs(patchPath)
	args = append(args, abs)
	cmd := exec.Command("git", args...)
	cmd.Dir = tmp
	cmd.Env = append(os.Environ(), "GIT_DIR=/nonexistent", "GIT_CEILING_DIRECTORIES="+filepath.Dir(tmp))
	if out, err := cmd.CombinedOutput(); err != nil {
		return nil, fmt.Errorf("patch does not apply: %s", strings.TrimSpace(string(out)))
	}
	ov := map[string][]byte{}
	for _, f := range files {
		b, err := os.ReadFile(filepath.Join(tmp, f))
		if err != nil {
			return nil, err
		}
		ov[filepath.Join(repo, f)] = b
	}
	return ov, nil
}

type MutantResult struct {
	Name    string   `json:"name"`
	Benign  bool     `json:"benign"`
	Status  string   `json:"status"` // caught | silent-as-expected | MISSED | FALSE-ALARM | stale | load-error
	Keys    []string `json:"findings,omitempty"`
	Expect  string   `json:"expect,omitempty"`
	Seconds float64  `json:"seconds"`
}

func loadMutants(verif, prop string) ([]Mutant, error) {
	var out []Mutant
	for _, name := range []string{prop + ".json", "benign.json"} {
		b, err := os.ReadFile(filepath.Join(verif, "mutants", name))
		if err != nil {
			if os.IsNotExist(err) {
				continue
			}
			return nil, err
		}
		var ms []Mutant
		if err := json.Unmarshal(b, &ms); err != nil {
			return nil, fmt.Errorf("%s: %v", name, err)
		}
		for _, m := range ms {
			if name == "benign.json" {
				m.Benign = true
				applies := len(m.Props) == 0
				for _, pp := range m.Props {
					if pp == prop {
						applies = true
					}
				}
				if !applies {
					continue
				}
			}
			out = append(out, m)
		}
	}
	return out, nil
}

// evaluate runs a property's rules on p and returns the findings that are not
// listed in known_findings.json, plus unresolved anchors.
func evaluate(pd *propDef, p *Program, verif string) (newKeys []string, unresolved []string, err error) {
	defer func() {
		if r := recover(); r != nil {
			err = fmt.Errorf("checker panic: %v", r)
		}
	}()
	c := newCheck(pd.id, "thorough", p)
	pd.run(c)
	kf, kerr := loadKnown(filepath.Join(verif, "known_findings.json"))
	if kerr != nil {
		return nil, nil, kerr
	}
	known := map[string]bool{}
	for _, k := range kf.Findings {
		if k.Property == pd.id {
			known[k.Key] = true
		}
	}
	seen := map[string]bool{}
	for _, f := range c.findings {
		if !known[f.Key()] && !seen[f.Key()] {
			seen[f.Key()] = true
			newKeys = append(newKeys, f.Key())
		}
	}
	return newKeys, c.unresolved, nil
}

func runMutantSet(pd *propDef, repo, verif string) ([]MutantResult, bool) {
	ms, err := loadMutants(verif, pd.id)
	if err != nil {
		fmt.Printf("SELFTEST error: %v\n", err)
		return nil, false
	}
	ok := true
	var out []MutantResult
	for _, m := range ms {
		res := MutantResult{Name: m.Name, Benign: m.Benign, Expect: m.Expect}
		t0 := nowSeconds()
		var overlay map[string][]byte
		if m.Patch != "" {
			ov, perr := patchOverlay(repo, filepath.Join(verif, m.Patch), m.Reverse)
			if perr != nil {
				res.Status = "stale"
				out = append(out, res)
				fmt.Printf("MUTANT %-40s stale (%v) - skipped\n", m.Name, perr)
				continue
			}
			overlay = ov
		} else {
			full := filepath.Join(repo, m.File)
			src, rerr := os.ReadFile(full)
			if rerr != nil || strings.Count(string(src), m.Old) != 1 {
				res.Status = "stale"
				out = append(out, res)
				fmt.Printf("MUTANT %-40s stale (anchor text not found exactly once in %s) - skipped\n", m.Name, m.File)
				continue
			}
			overlay = map[string][]byte{full: []byte(strings.Replace(string(src), m.Old, m.New, 1))}
		}
		p, lerr := loadProgram(repo, overlay, false)
		if lerr != nil {
			res.Status = "load-error"
			ok = false
			out = append(out, res)
			fmt.Printf("MUTANT %-40s LOAD-ERROR %v\n", m.Name, lerr)
			continue
		}
		keys, unres, eerr := evaluate(pd, p, verif)
		res.Keys = keys
		res.Seconds = nowSeconds() - t0
		switch {
		case eerr != nil:
			res.Status = "load-error"
			ok = false
		case m.Benign:
			if len(keys) == 0 && len(unres) == 0 {
				res.Status = "silent-as-expected"
			} else {
				res.Status = "FALSE-ALARM"
				res.Keys = append(res.Keys, unres...)
				ok = false
			}
		default:
			hit := false
			for _, k := range keys {
				if strings.Contains(k, m.Expect) {
					hit = true
				}
			}
			if hit {
				res.Status = "caught"
			} else {
				res.Status = "MISSED"
				ok = false
			}
		}
		fmt.Printf("MUTANT %-40s %s %v (%.1fs)\n", m.Name, res.Status, res.Keys, res.Seconds)
		out = append(out, res)
	}
	return out, ok
}

func nowSeconds() float64 { return float64(time.Now().UnixNano()) / 1e9 }

func runMutants(prop, repo, verif string) int {
	pd := props[prop]
	if pd == nil {
		fmt.Printf("unknown property %q\n", prop)
		return 2
	}
	_, ok := runMutantSet(pd, repo, verif)
	if !ok {
		return 2
	}
	return 0
}
