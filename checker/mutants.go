package main

func runMutants(prop, repo, verif string) int { return 0 }
