package main

import (
	"fmt"
	"go/token"
	"go/types"

	"golang.org/x/tools/go/ssa"
)

func init() {
	register("C11", runC11,
		"Structural necessary conditions of 'blob retrieval returns exactly the blobs in the block'. The share parser's state machine over paddings, sequence lengths and row boundaries (the for-all-layouts part of the property) is a value-level property and is NOT decided; what is decided is the frame around it. R11.1 commitment gate: retrieve returns a blob only if it is the result of parser.parse() of this iteration and only across parser.verify(that blob) == true; parser.verify returns verifyFn(blob) for its own argument (false without a verifyFn); in Get, GetProof and Included the verifyFn handed to retrieve returns blob.compareCommitments(commitment) for the method's own commitment parameter; compareCommitments is bytes.Equal of the blob's Commitment with its argument. R11.2 recomputed commitment: parse builds the Blob from ParseBlobs(p.shares)[0], its Commitment from inclusion.CreateCommitment of that very blob and its index from p.index, behind the rejecting tests length == len(shares) and len(blobs) == 1 and both error tests. R11.3 data source: the shares walked are GetNamespaceData(ctx, header, namespace) for the method's own namespace and the header of its own height. R11.4 not-found mapping: a getter failure never yields a blob, ErrNotFound becomes ErrBlobNotFound, an empty row (absence proof) and the fall-through return ErrBlobNotFound; getBlobs turns only ErrBlobNotFound into an empty success. R11.5 GetAll collects everything in order: getBlobs' verifyFn appends every parsed blob and never stops the walk; getAll stores result i of namespace i, waits, concatenates in index order and joins the errors. R11.6 start index provenance: the index handed to parser.set derives from the running row index (initialised by the search for the first row containing the namespace and advanced once per row), the square width len(RowRoots) of the same header and the row proof's Start(); where the expression has the shape a+b one side is rowIndex*width; wherever the remaining shares become a suffix returned by the parser at a merge, the offset in the row is advanced from that suffix's length on the same path. R11.7: parser.reset stores the zero value into every per-blob state field (every field except the callback).",
		"")
}

func runC11(c *Check) {
	p := c.P
	c.Rule("R11.1", "a blob is returned by commitment only across the comparison of its recomputed commitment with the requested one")
	c.Rule("R11.2", "parse builds the blob, its commitment and its index from the collected shares, behind its count tests")
	c.Rule("R11.3", "the shares walked are the namespace data of the requested namespace at the requested height")
	c.Rule("R11.4", "not-found mapping: getter failure, absence proof and fall-through")
	c.Rule("R11.5", "GetAll collects every parsed blob, per namespace, in order, and joins errors")
	c.Rule("R11.6", "blob start index derives from row index, square width and proof start")
	ret := p.Func("blob", "Service", "retrieve")
	parse := p.Func("blob", "parser", "parse")
	verify := p.Func("blob", "parser", "verify")
	set := p.Func("blob", "parser", "set")
	getBlobs := p.Func("blob", "Service", "getBlobs")
	getAll := p.Func("blob", "Service", "getAll")
	cmp := p.Func("blob", "Blob", "compareCommitments")
	if ret == nil || parse == nil || verify == nil || set == nil || getBlobs == nil || getAll == nil || cmp == nil {
		c.Unresolved("R11.1", "anchors not found (retrieve/parse/verify/set/getBlobs/getAll/compareCommitments)")
		return
	}
	for _, f := range []*ssa.Function{ret, parse, verify, set, getBlobs, getAll, cmp} {
		c.SawFunc(f)
	}
	var parserParam *ssa.Parameter
	for _, pr := range ret.Params {
		if n := derefNamed(pr.Type()); n != nil && n.Obj().Name() == "parser" {
			parserParam = pr
		}
	}
	if parserParam == nil {
		c.Unresolved("R11.1", "retrieve has no parser parameter")
		return
	}
	// ---- R11.1 a
	nBlobRet := 0
	for _, r := range returnsOf(ret) {
		if isNilConst(r.Results[0]) {
			continue
		}
		nBlobRet++
		g, idx := resolveCallThroughLocals(r.Results[0])
		fromParse := g != nil && idx == 0 && g.Call.StaticCallee() == parse && g.Call.Args[0] == ssa.Value(parserParam)
		c.Ob("R11.1", fmt.Sprintf("retrieve: returned blob #%d is the parsed one", nBlobRet), fromParse, p.Pos(r.Pos()), "the blob returned is the result of sharesParser.parse()")
		cut := callGates(func(k *ssa.Call, _ int) GateKind {
			if k.Call.StaticCallee() == verify && len(k.Call.Args) == 2 && k.Call.Args[0] == ssa.Value(parserParam) && sameValueThroughLocals(k.Call.Args[1], r.Results[0]) {
				return GateTrue
			}
			return NotGate
		})
		res := gateWalk(p, ret, map[*ssa.BasicBlock]bool{r.Block(): true}, cut, nil)
		c.Ob("R11.1", fmt.Sprintf("retrieve: returned blob #%d passed verify", nBlobRet), !res.Reached, p.Pos(r.Pos()), "a blob is returned only across sharesParser.verify(blob) == true for that very blob", res.Witness...)
		// no error alongside
		cls, _ := classifyReturn(r, errResultIndex(ret))
		c.Ob("R11.1", fmt.Sprintf("retrieve: returned blob #%d has nil error", nBlobRet), cls == retNil, p.Pos(r.Pos()), "a blob is returned with a nil error")
	}
	c.Floor("R11.1", "returns of a blob in retrieve", nBlobRet, 1)
	// ---- R11.1 b: parser.verify
	okV := true
	nCallV := 0
	for _, r := range returnsOf(verify) {
		v := r.Results[0]
		if k, ok := v.(*ssa.Const); ok {
			if k.Value != nil && k.Value.ExactString() == "false" {
				continue
			}
			okV = false
			continue
		}
		g, ok := v.(*ssa.Call)
		if !ok || g.Call.IsInvoke() || g.Call.StaticCallee() != nil {
			okV = false
			continue
		}
		f := fieldOfAddr(g.Call.Value)
		if f == nil || f.Name() != "verifyFn" || len(g.Call.Args) != 1 || g.Call.Args[0] != ssa.Value(verify.Params[1]) {
			okV = false
			continue
		}
		nCallV++
	}
	c.Ob("R11.1", "parser.verify delegates to verifyFn", okV && nCallV > 0, p.Pos(verify.Pos()), "verify returns verifyFn(blob) for its own argument, or false when no verifyFn is set")
	// ---- R11.1 c: the commitment closures
	okCmp := false
	for _, r := range returnsOf(cmp) {
		g, ok := r.Results[0].(*ssa.Call)
		if !ok {
			continue
		}
		if o := calleeObj(&g.Call); o != nil && pkgPathOf(o) == "bytes" && o.Name() == "Equal" && len(g.Call.Args) == 2 {
			a, b := backSlice(g.Call.Args[0], SliceOpt{}), backSlice(g.Call.Args[1], SliceOpt{})
			isField := func(s *Slice) bool { return s.HasFieldNamed("Blob", "Commitment") }
			isParam := func(s *Slice) bool { return s.Vals[cmp.Params[1]] }
			if (isField(a) && isParam(b) && !isField(b)) || (isField(b) && isParam(a) && !isField(a)) {
				okCmp = true
			}
		}
	}
	c.Ob("R11.1", "compareCommitments is an equality", okCmp && len(returnsOf(cmp)) == 1, p.Pos(cmp.Pos()), "compareCommitments returns bytes.Equal(blob.Commitment, argument)")
	nClos := 0
	for _, name := range []string{"Get", "GetProof", "Included"} {
		f := p.Func("blob", "Service", name)
		if f == nil {
			c.Unresolved("R11.1", "blob.Service."+name+" not found")
			continue
		}
		c.SawFunc(f)
		var commitP *ssa.Parameter
		for _, pr := range f.Params {
			if n, ok := pr.Type().(*types.Named); ok && n.Obj().Name() == "Commitment" {
				commitP = pr
			}
		}
		// the parser literal and the closure stored in its verifyFn
		var parserAlloc ssa.Value
		var clos *ssa.MakeClosure
		for _, b := range f.Blocks {
			for _, ins := range b.Instrs {
				st, ok := ins.(*ssa.Store)
				if !ok {
					continue
				}
				fa, ok := st.Addr.(*ssa.FieldAddr)
				if !ok || fieldOf(fa) == nil || fieldOf(fa).Name() != "verifyFn" {
					continue
				}
				v := st.Val
				if ct, ok := v.(*ssa.ChangeType); ok {
					v = ct.X
				}
				if mc, ok := v.(*ssa.MakeClosure); ok {
					clos, parserAlloc = mc, fa.X
				}
			}
		}
		if clos == nil || commitP == nil {
			c.Ob("R11.1", name+": verifyFn compares the requested commitment", false, p.Pos(f.Pos()), "the parser handed to retrieve carries a verifyFn closure over the method's commitment parameter")
			continue
		}
		nClos++
		cf := clos.Fn.(*ssa.Function)
		good := len(returnsOf(cf)) > 0
		for _, r := range returnsOf(cf) {
			g, ok := r.Results[0].(*ssa.Call)
			if !ok || g.Call.StaticCallee() != cmp || len(g.Call.Args) != 2 || g.Call.Args[0] != ssa.Value(cf.Params[0]) {
				good = false
				continue
			}
			// the argument: a free variable bound to the commitment parameter (directly or through its spill slot)
			arg := g.Call.Args[1]
			if u, ok := arg.(*ssa.UnOp); ok && u.Op == token.MUL {
				arg = u.X
			}
			fv, ok := arg.(*ssa.FreeVar)
			if !ok {
				good = false
				continue
			}
			bound := false
			for i, x := range cf.FreeVars {
				if x != fv || i >= len(clos.Bindings) {
					continue
				}
				switch bv := clos.Bindings[i].(type) {
				case *ssa.Parameter:
					bound = bv == commitP
				case *ssa.Alloc:
					n, okSt := 0, false
					for _, rr := range *bv.Referrers() {
						if st, ok := rr.(*ssa.Store); ok && st.Addr == ssa.Value(bv) {
							n++
							okSt = st.Val == ssa.Value(commitP)
						}
					}
					bound = n == 1 && okSt
				}
			}
			if !bound {
				good = false
			}
		}
		c.Ob("R11.1", name+": verifyFn compares the requested commitment", good, p.Pos(clos.Pos()), "verifyFn returns blob.compareCommitments(commitment) for the parsed blob and the method's own commitment parameter")
		// and that parser is the one passed to retrieve
		passed := false
		for _, b := range f.Blocks {
			for _, ins := range b.Instrs {
				if g, ok := ins.(*ssa.Call); ok && g.Call.StaticCallee() == ret {
					if g.Call.Args[len(g.Call.Args)-1] == parserAlloc {
						passed = true
					}
				}
			}
		}
		c.Ob("R11.1", name+": that parser is handed to retrieve", passed, p.Pos(f.Pos()), "retrieve is called with the parser whose verifyFn was set")
	}
	c.Floor("R11.1", "commitment-comparing entry points", nClos, 3)
	// ---- R11.2 parse
	for _, r := range returnsOf(parse) {
		if isNilConst(r.Results[0]) {
			continue
		}
		al, ok := r.Results[0].(*ssa.Alloc)
		if !ok {
			c.Ob("R11.2", "parse: result is a fresh Blob", false, p.Pos(r.Pos()), "parse returns a freshly built Blob")
			continue
		}
		var blobsCall, commitCall *ssa.Call
		fields := map[string]ssa.Value{}
		for _, rr := range *al.Referrers() {
			fa, ok := rr.(*ssa.FieldAddr)
			if !ok {
				continue
			}
			for _, r2 := range *fa.Referrers() {
				if st, ok := r2.(*ssa.Store); ok && st.Addr == ssa.Value(fa) {
					fields[fieldOf(fa).Name()] = st.Val
				}
			}
		}
		bs := backSlice(fields["Blob"], SliceOpt{})
		for v := range bs.Vals {
			if g, ok := v.(*ssa.Call); ok && calleeObj(&g.Call) != nil && calleeObj(&g.Call).Name() == "ParseBlobs" {
				blobsCall = g
			}
		}
		okBlob := blobsCall != nil && backSlice(blobsCall.Call.Args[0], SliceOpt{}).HasFieldNamed("parser", "shares")
		c.Ob("R11.2", "parse: data from the collected shares", okBlob, p.Pos(r.Pos()), "Blob.Blob is an element of ParseBlobs(p.shares)")
		cv := fields["Commitment"]
		if ct, ok := cv.(*ssa.ChangeType); ok {
			cv = ct.X
		}
		if g, idx := resolveCall(cv); g != nil && idx == 0 && calleeObj(&g.Call) != nil && calleeObj(&g.Call).Name() == "CreateCommitment" {
			commitCall = g
		}
		okCommit := commitCall != nil && blobsCall != nil && backSlice(commitCall.Call.Args[0], SliceOpt{}).Vals[blobsCall]
		c.Ob("R11.2", "parse: commitment recomputed from the parsed blob", okCommit, p.Pos(r.Pos()), "Blob.Commitment is inclusion.CreateCommitment of the blob parsed from the collected shares")
		okIdx := fields["index"] != nil && backSlice(fields["index"], SliceOpt{}).HasFieldNamed("parser", "index")
		c.Ob("R11.2", "parse: index from the parser", okIdx, p.Pos(r.Pos()), "Blob.index is p.index")
		// gates
		target := map[*ssa.BasicBlock]bool{r.Block(): true}
		cntCut, g1 := failGates(parse, func(cond ssa.Value, sl *Slice) bool {
			return sl.HasFieldNamed("parser", "length") && sl.HasFieldNamed("parser", "shares") && isEqualityTest(cond)
		})
		res := gateWalk(p, parse, target, cntCut, nil)
		c.Ob("R11.2", "parse: share count test", len(g1) > 0 && !res.Reached, p.Pos(parse.Pos()), "a blob is built only across p.length == len(p.shares)", res.Witness...)
		oneCut, g2 := failGates(parse, func(cond ssa.Value, sl *Slice) bool {
			if !isEqualityTest(cond) || blobsCall == nil {
				return false
			}
			bo := stripNot(cond).Base.(*ssa.BinOp)
			k, isK := bo.Y.(*ssa.Const)
			return isLenCall(bo.X) && sl.Vals[blobsCall] && isK && k.Value != nil && k.Int64() == 1
		})
		res = gateWalk(p, parse, target, oneCut, nil)
		c.Ob("R11.2", "parse: exactly one blob", len(g2) > 0 && !res.Reached, p.Pos(parse.Pos()), "a blob is built only across len(ParseBlobs(...)) == 1", res.Witness...)
		errCut := callGates(func(k *ssa.Call, _ int) GateKind {
			if o := calleeObj(&k.Call); o != nil && (o.Name() == "ParseBlobs" || o.Name() == "CreateCommitment") {
				return GateErr
			}
			return NotGate
		})
		for _, kc := range []*ssa.Call{blobsCall, commitCall} {
			if kc == nil {
				continue
			}
			okS, _ := errEdgesOfCall(parse, kc)
			c.Ob("R11.2", "parse: error of "+calleeObj(&kc.Call).Name()+" tested", len(okS) > 0, p.Pos(kc.Pos()), "the error result is tested")
		}
		res = gateWalk(p, parse, target, errCut, nil)
		c.Ob("R11.2", "parse: only after both calls succeeded", !res.Reached, p.Pos(parse.Pos()), "a blob is built only across the success edges of ParseBlobs and CreateCommitment", res.Witness...)
	}
	// ---- R11.3 data source
	var gnd *ssa.Call
	for _, b := range ret.Blocks {
		for _, ins := range b.Instrs {
			if g, ok := ins.(*ssa.Call); ok && g.Call.IsInvoke() && g.Call.Method.Name() == "GetNamespaceData" {
				gnd = g
			}
		}
	}
	if gnd == nil {
		c.Unresolved("R11.3", "GetNamespaceData call not found in retrieve")
		return
	}
	var heightP, nsP *ssa.Parameter
	for _, pr := range ret.Params {
		switch pr.Name() {
		case "height":
			heightP = pr
		case "namespace":
			nsP = pr
		}
	}
	hc, hidx := resolveCallThroughLocals(gnd.Call.Args[1])
	hdrOK := hc != nil && hidx == 0 && fieldOfAddr(hc.Call.Value) != nil && fieldOfAddr(hc.Call.Value).Name() == "headerGetter" && len(hc.Call.Args) == 2 && heightP != nil && hc.Call.Args[1] == ssa.Value(heightP)
	c.Ob("R11.3", "header of the requested height", hdrOK, p.Pos(gnd.Pos()), "the header given to the share getter is headerGetter(ctx, height) for retrieve's own height")
	c.Ob("R11.3", "requested namespace", nsP != nil && gnd.Call.Args[2] == ssa.Value(nsP), p.Pos(gnd.Pos()), "GetNamespaceData is asked for retrieve's own namespace parameter")
	// shares given to the parser come from that result
	nFeed := 0
	for _, b := range ret.Blocks {
		for _, ins := range b.Instrs {
			g, ok := ins.(*ssa.Call)
			if !ok || g.Call.StaticCallee() == nil || (g.Call.StaticCallee().Name() != "set" && g.Call.StaticCallee().Name() != "addShares") || recvName(g.Call.StaticCallee()) != "parser" {
				continue
			}
			nFeed++
			sl := backSlice(g.Call.Args[len(g.Call.Args)-1], SliceOpt{CallArgs: true})
			c.Ob("R11.3", "shares fed to parser."+g.Call.StaticCallee().Name(), sl.Vals[gnd], p.Pos(g.Pos()), "the shares handed to the parser derive from the GetNamespaceData result")
		}
	}
	c.Floor("R11.3", "parser feeding calls in retrieve", nFeed, 2)
	// ---- R11.4
	okS, failS := errEdgesOfCall(ret, gnd)
	c.Ob("R11.4", "getter error tested", len(okS) > 0 && len(failS) > 0, p.Pos(gnd.Pos()), "the share getter's error is tested")
	blobRets := map[*ssa.BasicBlock]bool{}
	for _, r := range returnsOf(ret) {
		if !isNilConst(r.Results[0]) {
			blobRets[r.Block()] = true
		}
	}
	isNotFoundErr := func(v ssa.Value) bool {
		return backSlice(v, SliceOpt{CallArgs: true}).Has(func(x ssa.Value) bool {
			gl, ok := x.(*ssa.Global)
			return ok && gl.Name() == "ErrBlobNotFound"
		})
	}
	for _, s := range failS {
		res := gateWalk(p, ret, blobRets, nil, s)
		c.Ob("R11.4", "getter failure yields no blob", !res.Reached, p.Pos(blockPos(s)), "no blob is returned after GetNamespaceData failed", res.Witness...)
		mapped := false
		for _, r := range returnsOf(ret) {
			if s.Dominates(r.Block()) {
				ev := r.Results[len(r.Results)-1]
				if isNotFoundErr(ev) && backSlice(ev, SliceOpt{}).Vals[ssa.Value(nil)] == false {
					// the returned error is the getter's own or ErrBlobNotFound, chosen by errors.Is(err, shwap.ErrNotFound)
					sl := backSlice(ev, SliceOpt{PhiControl: true, CallArgs: true})
					if sl.Has(func(x ssa.Value) bool { gl, ok := x.(*ssa.Global); return ok && gl.Name() == "ErrNotFound" }) {
						mapped = true
					}
				}
			}
		}
		c.Ob("R11.4", "shwap.ErrNotFound mapped to ErrBlobNotFound", mapped, p.Pos(blockPos(s)), "on the getter's failure side the returned error is ErrBlobNotFound exactly when errors.Is(err, shwap.ErrNotFound)")
	}
	// absence proof: len(row.Shares) == 0 side returns ErrBlobNotFound
	nAbs := 0
	for _, b := range ret.Blocks {
		ifi, ok := b.Instrs[len(b.Instrs)-1].(*ssa.If)
		if !ok {
			continue
		}
		a := stripNot(ifi.Cond)
		bo, ok := a.Base.(*ssa.BinOp)
		if !ok || bo.Op != token.EQL || !isLenCall(bo.X) {
			continue
		}
		if k, ok := bo.Y.(*ssa.Const); !ok || k.Value == nil || k.Int64() != 0 {
			continue
		}
		sl := backSlice(bo.X, SliceOpt{CallArgs: true})
		if !sl.HasFieldNamed("RowNamespaceData", "Shares") || !sl.Vals[gnd] {
			continue
		}
		nAbs++
		side := b.Succs[0]
		if a.Neg {
			side = b.Succs[1]
		}
		okAbs := true
		nr := 0
		for _, r := range returnsOf(ret) {
			if side.Dominates(r.Block()) {
				nr++
				if !isNilConst(r.Results[0]) || !isNotFoundErr(r.Results[len(r.Results)-1]) {
					okAbs = false
				}
			}
		}
		res := gateWalk(p, ret, blobRets, nil, side)
		c.Ob("R11.4", "absence proof means not found", okAbs && nr > 0 && !res.Reached, p.Pos(ifi.Pos()), "a row without shares (absence proof) returns ErrBlobNotFound and no blob")
	}
	c.Floor("R11.4", "absence-proof tests in retrieve", nAbs, 1)
	// fall-through: the return after the row loop
	nFall := 0
	for _, r := range returnsOf(ret) {
		if !isNilConst(r.Results[0]) {
			continue
		}
		ev := r.Results[len(r.Results)-1]
		if cls, _ := classifyReturn(r, errResultIndex(ret)); cls == retNil {
			c.Ob("R11.4", "no success without a blob", false, p.Pos(r.Pos()), "retrieve never returns (nil, nil, nil)")
		}
		if isNotFoundErr(ev) {
			nFall++
		}
	}
	c.Floor("R11.4", "returns carrying ErrBlobNotFound", nFall, 3)
	// getBlobs: only ErrBlobNotFound becomes an empty success
	var rcall *ssa.Call
	for _, b := range getBlobs.Blocks {
		for _, ins := range b.Instrs {
			if g, ok := ins.(*ssa.Call); ok && g.Call.StaticCallee() == ret {
				rcall = g
			}
		}
	}
	if rcall == nil {
		c.Unresolved("R11.4", "getBlobs does not call retrieve")
	} else {
		_, fl := errEdgesOfCall(getBlobs, rcall)
		succ := blocksOfReturns(successReturns(getBlobs))
		nfCut := callGates(func(k *ssa.Call, _ int) GateKind {
			if o := calleeObj(&k.Call); o != nil && pkgPathOf(o) == "errors" && o.Name() == "Is" && isNotFoundErr(k.Call.Args[1]) && sameValueThroughLocals(k.Call.Args[0], errOfCall(rcall)) {
				return GateTrue
			}
			return NotGate
		})
		c.Ob("R11.4", "getBlobs tests retrieve's error", len(fl) > 0, p.Pos(rcall.Pos()), "the error of retrieve is tested")
		for _, s := range fl {
			res := gateWalk(p, getBlobs, succ, nfCut, s)
			c.Ob("R11.4", "getBlobs: only not-found becomes an empty result", !res.Reached, p.Pos(blockPos(s)), "after retrieve failed, success is returned only across errors.Is(err, ErrBlobNotFound)", res.Witness...)
		}
	}
	// ---- R11.5
	var gbClos *ssa.MakeClosure
	for _, b := range getBlobs.Blocks {
		for _, ins := range b.Instrs {
			if mc, ok := ins.(*ssa.MakeClosure); ok {
				if sig := mc.Fn.(*ssa.Function).Signature; sig.Params().Len() == 1 && sig.Results().Len() == 1 {
					gbClos = mc
				}
			}
		}
	}
	if gbClos == nil {
		c.Ob("R11.5", "getBlobs collects", false, p.Pos(getBlobs.Pos()), "getBlobs installs a collecting verifyFn")
	} else {
		cf := gbClos.Fn.(*ssa.Function)
		allFalse := len(returnsOf(cf)) > 0
		for _, r := range returnsOf(cf) {
			k, ok := r.Results[0].(*ssa.Const)
			if !ok || k.Value == nil || k.Value.ExactString() != "false" {
				allFalse = false
			}
		}
		appends := false
		var cell ssa.Value
		for _, b := range cf.Blocks {
			for _, ins := range b.Instrs {
				st, ok := ins.(*ssa.Store)
				if !ok {
					continue
				}
				fv, ok := st.Addr.(*ssa.FreeVar)
				if !ok {
					continue
				}
				sl := backSlice(st.Val, SliceOpt{CallArgs: true})
				isApp := sl.Has(func(x ssa.Value) bool {
					g, ok := x.(*ssa.Call)
					if !ok {
						return false
					}
					bi, ok := g.Call.Value.(*ssa.Builtin)
					return ok && bi.Name() == "append"
				})
				if isApp && sl.Vals[cf.Params[0]] && sl.Vals[fv] && cf.Blocks[0] == b {
					appends = true
					for i, x := range cf.FreeVars {
						if x == fv && i < len(gbClos.Bindings) {
							cell = gbClos.Bindings[i]
						}
					}
				}
			}
		}
		c.Ob("R11.5", "getBlobs: every parsed blob is collected", appends, p.Pos(gbClos.Pos()), "the verifyFn appends its argument to the result list unconditionally (in its entry block)")
		c.Ob("R11.5", "getBlobs: the walk never stops early", allFalse, p.Pos(gbClos.Pos()), "the collecting verifyFn always returns false, so retrieve walks the whole namespace")
		okRet := cell != nil
		for _, r := range successReturns(getBlobs) {
			if cell == nil || !backSlice(r.Results[0], SliceOpt{}).Vals[cell] {
				okRet = false
			}
		}
		c.Ob("R11.5", "getBlobs returns the collected list", okRet, p.Pos(getBlobs.Pos()), "the success result is the list the verifyFn appended to")
	}
	// getAll
	var goClos *ssa.MakeClosure
	var waitBlk, concatBlk *ssa.BasicBlock
	var concat, join *ssa.Call
	waitIdx, concatIdx := -1, -1
	for _, b := range getAll.Blocks {
		for i, ins := range b.Instrs {
			switch x := ins.(type) {
			case *ssa.Go:
				if mc, ok := x.Call.Value.(*ssa.MakeClosure); ok {
					goClos = mc
					_ = x
				}
			case *ssa.Call:
				if o := calleeObj(&x.Call); o != nil {
					switch {
					case o.Name() == "Wait" && pkgPathOf(o) == "sync":
						waitBlk, waitIdx = b, i
					case o.Name() == "Concat" && pkgPathOf(o) == "slices":
						concat, concatBlk, concatIdx = x, b, i
					case o.Name() == "Join" && pkgPathOf(o) == "errors":
						join = x
					}
				}
			}
		}
	}
	okOrder := waitBlk != nil && concatBlk != nil && ((waitBlk == concatBlk && waitIdx < concatIdx) || (waitBlk != concatBlk && waitBlk.Dominates(concatBlk)))
	c.Ob("R11.5", "getAll waits before concatenating", okOrder, p.Pos(getAll.Pos()), "wg.Wait() dominates slices.Concat of the per-namespace results")
	okOut := concat != nil && join != nil
	if okOut {
		for _, r := range returnsOf(getAll) {
			if !backSlice(r.Results[0], SliceOpt{}).Vals[concat] || !backSlice(r.Results[1], SliceOpt{}).Vals[join] {
				okOut = false
			}
		}
	}
	c.Ob("R11.5", "getAll returns the concatenation and the joined errors", okOut, p.Pos(getAll.Pos()), "the results are slices.Concat(resultBlobs...) and errors.Join(resultErr...)")
	if goClos == nil {
		c.Ob("R11.5", "getAll: one worker per namespace", false, p.Pos(getAll.Pos()), "a goroutine per namespace stores its result")
	} else {
		gf := goClos.Fn.(*ssa.Function)
		c.SawFunc(gf)
		nSt, okSt := 0, true
		for _, b := range gf.Blocks {
			for _, ins := range b.Instrs {
				st, ok := ins.(*ssa.Store)
				if !ok {
					continue
				}
				ia, ok := st.Addr.(*ssa.IndexAddr)
				if !ok {
					continue
				}
				nSt++
				g, _ := resolveCall(st.Val)
				if g == nil || g.Call.StaticCallee() != getBlobs {
					okSt = false
					continue
				}
				// index is the goroutine's own index parameter, namespace its own namespace parameter
				ip, ok1 := ia.Index.(*ssa.Parameter)
				np, ok2 := g.Call.Args[2].(*ssa.Parameter)
				if !ok1 || !ok2 || ip.Parent() != gf || np.Parent() != gf {
					okSt = false
				}
			}
		}
		c.Ob("R11.5", "getAll: result i belongs to namespace i", nSt == 2 && okSt, p.Pos(goClos.Pos()), "the worker stores getBlobs(ctx, namespace, header) at its own index in both result slices")
		// the go call passes the range index and value
		okArgs := false
		for _, b := range getAll.Blocks {
			for _, ins := range b.Instrs {
				if gi, ok := ins.(*ssa.Go); ok && len(gi.Call.Args) == 2 {
					isl := backSlice(gi.Call.Args[0], SliceOpt{})
					nsl := backSlice(gi.Call.Args[1], SliceOpt{})
					idxIsLoop := isl.Has(func(x ssa.Value) bool {
						ph, ok := x.(*ssa.Phi)
						return ok && ph.Comment == "rangeindex"
					})
					var nsParam *ssa.Parameter
					for _, pr := range getAll.Params {
						if pr.Name() == "namespaces" {
							nsParam = pr
						}
					}
					okArgs = idxIsLoop && nsParam != nil && nsl.Vals[nsParam] && nsl.Has(func(x ssa.Value) bool {
						ia, ok := x.(*ssa.IndexAddr)
						return ok && isl.Vals[ia.Index]
					})
				}
			}
		}
		c.Ob("R11.5", "getAll: worker i gets namespaces[i]", okArgs, p.Pos(goClos.Pos()), "the goroutine is started with the loop index and namespaces[index]")
	}
	// ---- R11.6
	nSet := 0
	for _, b := range ret.Blocks {
		for _, ins := range b.Instrs {
			g, ok := ins.(*ssa.Call)
			if !ok || g.Call.StaticCallee() != set {
				continue
			}
			nSet++
			idx := g.Call.Args[1]
			sl := backSlice(idx, SliceOpt{CallArgs: true})
			hasStart := sl.Has(func(x ssa.Value) bool {
				k, ok := x.(*ssa.Call)
				if !ok {
					return false
				}
				o := calleeObj(&k.Call)
				return o != nil && o.Name() == "Start" && pkgPathOf(o) == pkgNmt && backSlice(k.Call.Args[0], SliceOpt{}).Vals[gnd]
			})
			hasWidth := sl.Has(func(x ssa.Value) bool {
				return isLenCall(x) && backSlice(x, SliceOpt{CallArgs: true}).HasFieldNamed("DataAvailabilityHeader", "RowRoots") && backSlice(x, SliceOpt{CallArgs: true}).Vals[hc]
			})
			// the running row index: a phi of the row loop that is advanced by one per row and
			// initialised from the search over the row roots
			var rowPhi *ssa.Phi
			for v := range sl.Vals {
				ph, ok := v.(*ssa.Phi)
				if !ok || ph.Comment != "rowIndex" && !c11IsRowCounter(ph) {
					continue
				}
				if c11IsRowCounter(ph) {
					rowPhi = ph
				}
			}
			c.Ob("R11.6", "set index: proof start", hasStart, p.Pos(g.Pos()), "derives from Start() of the current row's proof")
			c.Ob("R11.6", "set index: square width", hasWidth, p.Pos(g.Pos()), "derives from len(RowRoots) of the header whose namespace data is walked")
			c.Ob("R11.6", "set index: running row index", rowPhi != nil, p.Pos(g.Pos()), "derives from a row counter advanced by exactly one per walked row")
			if rowPhi != nil {
				// initial value: from the search loop over RowRoots with IsOutsideRange
				// the search may live in a helper (firstRowWithNamespace-style): look into callees
				init := backSlice(rowPhi, SliceOpt{PhiControl: true, CallArgs: true, CalleeDepth: 2, P: p})
				c.Ob("R11.6", "row index starts at the first row with the namespace", init.Has(func(x ssa.Value) bool {
					k, ok := x.(*ssa.Call)
					return ok && calleeObj(&k.Call) != nil && calleeObj(&k.Call).Name() == "IsOutsideRange"
				}), p.Pos(g.Pos()), "the row counter's initial value is chosen by the IsOutsideRange search over the row roots")
			}
			// shape, when recognisable
			if bo, ok := idx.(*ssa.BinOp); ok && bo.Op == token.ADD && rowPhi != nil {
				isMul := func(v ssa.Value) bool {
					m, ok := v.(*ssa.BinOp)
					if !ok || m.Op != token.MUL {
						return false
					}
					a, b2 := backSlice(m.X, SliceOpt{}), backSlice(m.Y, SliceOpt{})
					w := func(s *Slice, v ssa.Value) bool { return isLenCall(v) || s.Has(isLenCall) }
					return (a.Vals[rowPhi] && w(b2, m.Y)) || (b2.Vals[rowPhi] && w(a, m.X))
				}
				c.Ob("R11.6", "set index: rowIndex*width + offset", isMul(bo.X) != isMul(bo.Y), p.Pos(g.Pos()), "one summand is the row counter times the square width, the other the offset in the row")
			}
		}
	}
	c.Floor("R11.6", "parser.set calls in retrieve", nSet, 1)
	// the in-row offset follows the shares: wherever the slice of remaining shares takes a
	// suffix returned by the parser (set skipped padding, addShares consumed a blob) at a merge,
	// the offset takes, on the same edge, a value computed from the length of that suffix
	nAdv := 0
	for _, b := range ret.Blocks {
		for _, ins := range b.Instrs {
			pa, ok := ins.(*ssa.Phi)
			if !ok || !isShareSlice(pa.Type()) {
				continue
			}
			for i, e := range pa.Edges {
				g, idx := resolveCall(e)
				if g == nil || idx != 0 || g.Call.StaticCallee() == nil || recvName(g.Call.StaticCallee()) != "parser" {
					continue
				}
				nAdv++
				adv := false
				for _, in2 := range b.Instrs {
					pi, ok := in2.(*ssa.Phi)
					if !ok || pi == pa || !isIntType(pi.Type()) || i >= len(pi.Edges) {
						continue
					}
					sl := backSlice(pi.Edges[i], SliceOpt{CallArgs: true})
					if _, isBin := pi.Edges[i].(*ssa.BinOp); isBin && sl.Has(func(x ssa.Value) bool { return isLenCall(x) && backSlice(x, SliceOpt{CallArgs: true}).Vals[e] }) {
						adv = true
					}
				}
				c.Ob("R11.6", fmt.Sprintf("offset advanced with the shares (%s suffix #%d)", g.Call.StaticCallee().Name(), nAdv), adv, p.Pos(g.Pos()),
					"where the remaining shares become the suffix returned by parser."+g.Call.StaticCallee().Name()+", the offset in the row is advanced by the number of shares dropped (computed from the suffix's length) on the same path")
			}
		}
	}
	c.Floor("R11.6", "merges where the remaining shares take a parser suffix", nAdv, 2)
	// ---- R11.7 no state survives from one blob to the next
	c.Rule("R11.7", "parser.reset clears every per-blob state field")
	reset := p.Func("blob", "parser", "reset")
	isEmpty := p.Func("blob", "parser", "isEmpty")
	pn := p.Named("blob", "parser")
	if reset == nil || isEmpty == nil || pn == nil {
		c.Unresolved("R11.7", "parser.reset / parser.isEmpty not found")
		return
	}
	c.SawFunc(reset)
	c.SawFunc(isEmpty)
	st := pn.Underlying().(*types.Struct)
	nState := 0
	for i := 0; i < st.NumFields(); i++ {
		f := st.Field(i)
		if _, isFn := f.Type().Underlying().(*types.Signature); isFn {
			continue // the callback is configuration, not per-blob state
		}
		nState++
		cleared := false
		for _, b := range reset.Blocks {
			for _, ins := range b.Instrs {
				if s2, ok := ins.(*ssa.Store); ok {
					if fa, ok := s2.Addr.(*ssa.FieldAddr); ok && fieldOf(fa) == f {
						if k, ok := s2.Val.(*ssa.Const); ok && (k.Value == nil || k.Value.ExactString() == "0" || k.Value.ExactString() == "false" || k.Value.ExactString() == `""`) {
							cleared = true
						}
					}
				}
			}
		}
		c.Ob("R11.7", "reset clears parser."+f.Name(), cleared, p.Pos(reset.Pos()), "reset stores the zero value into every per-blob state field (state of one blob must not shape the next one)")
	}
	c.Floor("R11.7", "state fields of parser", nState, 3)
	c11ProofList(c, "R11.8")
}

func isShareSlice(t types.Type) bool {
	sl, ok := t.Underlying().(*types.Slice)
	if !ok {
		return false
	}
	n, ok := sl.Elem().(*types.Named)
	return ok && n.Obj().Name() == "Share"
}

func isIntType(t types.Type) bool {
	b, ok := t.Underlying().(*types.Basic)
	return ok && b.Info()&types.IsInteger != 0
}

// c11IsRowCounter: a loop-header phi with one incoming edge from outside the
// loop and all other incoming values equal to phi+1.
func c11IsRowCounter(ph *ssa.Phi) bool {
	inc := 0
	other := 0
	for _, e := range ph.Edges {
		if bo, ok := e.(*ssa.BinOp); ok && bo.Op == token.ADD && bo.X == ssa.Value(ph) {
			if k, ok := bo.Y.(*ssa.Const); ok && k.Value != nil && k.Int64() == 1 {
				inc++
				continue
			}
		}
		other++
	}
	return inc >= 1 && other == 1 && ph.Comment != "rangeindex"
}

// errOfCall returns the Extract of the call's last (error) result, or the call itself.
func errOfCall(g *ssa.Call) ssa.Value {
	n := g.Call.Signature().Results().Len()
	if n <= 1 {
		return g
	}
	for _, r := range *g.Referrers() {
		if ex, ok := r.(*ssa.Extract); ok && ex.Index == n-1 {
			return ex
		}
	}
	return g
}
