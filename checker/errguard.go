package main

import (
	"go/token"
	"golang.org/x/tools/go/ssa"
	"strings"
)

// checkResultsOnlyOnSuccess: in every top-level function of the packages, a value
// produced by a call that also returns an error may be *returned* only across that
// call's success edge, unless the same return also hands back that call's error
// (plain delegation `return v, err`). A value of a failed call is by convention
// meaningless (usually the zero value), and returning it as a result turns the
// failure into a wrong answer.
func checkResultsOnlyOnSuccess(c *Check, rule string, rels ...string) int {
	p := c.P
	n := 0
	for _, rel := range rels {
		for _, f := range p.FuncsOfPkg(rel) {
			for _, b := range f.Blocks {
				for _, ins := range b.Instrs {
					g, ok := ins.(*ssa.Call)
					if !ok {
						continue
					}
					sig := g.Call.Signature()
					nr := sig.Results().Len()
					if nr < 2 || !isErrorType(sig.Results().At(nr-1).Type()) {
						continue
					}
					// io-style calls report a meaningful count together with the error
					if o := calleeObj(&g.Call); o != nil {
						switch o.Name() {
						case "Read", "Write", "ReadFull", "ReadAtLeast", "ReadFrom", "WriteTo", "Copy", "CopyN", "ReadAt", "WriteAt", "WriteString":
							continue
						}
					}
					if strings.HasSuffix(p.Pos(f.Pos()), "testing.go") || strings.Contains(p.Pos(f.Pos()), "/testing.go:") {
						continue // test support code compiled into the package
					}
					errV := errOfCall(g)
					for _, r := range returnsOf(f) {
						uses, delegates := false, false
						for _, rv := range r.Results {
							sl := backSlice(rv, SliceOpt{CallArgs: true, PhiControl: true})
							if isErrorType(rv.Type()) {
								if sl.Vals[errV] || sl.Vals[g] {
									delegates = true
								}
								continue
							}
							// the value itself (not something computed from it by another call)
							if g2, idx := resolveSingleDef(rv); g2 == g && idx < nr-1 {
								uses = true
							}
						}
						if !uses || delegates {
							continue
						}
						n++
						cut := callGates(func(k *ssa.Call, _ int) GateKind {
							if k == g {
								return GateErr
							}
							return NotGate
						})
						res := gateWalk(p, f, map[*ssa.BasicBlock]bool{r.Block(): true}, cut, nil)
						c.Ob(rule, "result of "+calleeNameCI(g)+" returned by "+fnName(f)+" only on success", !res.Reached, p.Pos(r.Pos()),
							"a value produced together with an error is returned only across err == nil (or together with that error)", res.Witness...)
					}
				}
			}
		}
	}
	return n
}

// resolveSingleDef: like resolveCallThroughLocals, but a local that is assigned
// more than once is not resolved (the value of a failed call may have been replaced).
func resolveSingleDef(v ssa.Value) (*ssa.Call, int) {
	for depth := 0; depth < 6; depth++ {
		if g, idx := resolveCall(v); g != nil {
			return g, idx
		}
		u, ok := v.(*ssa.UnOp)
		if !ok {
			return nil, 0
		}
		al, ok := u.X.(*ssa.Alloc)
		if !ok {
			return nil, 0
		}
		var st *ssa.Store
		cnt := 0
		for _, r := range *al.Referrers() {
			switch x := r.(type) {
			case *ssa.Store:
				if x.Addr == ssa.Value(al) {
					st = x
					cnt++
				}
			case *ssa.FieldAddr, *ssa.IndexAddr:
				cnt += 2 // partially written: not a single definition
			}
		}
		if cnt != 1 || st == nil {
			return nil, 0
		}
		v = st.Val
	}
	return nil, 0
}

// checkReceivedErrorsGateSuccess: an error value received from a channel (the verdict of
// a goroutine the function started) gates the function's success: from the receive, a
// success return is reachable only across the `err == nil` side of a test of that very
// value (or the value is returned). A received error that is tested only together with
// another error lets the other goroutine's failure pass as success.
func checkReceivedErrorsGateSuccess(c *Check, rule string, rels ...string) int {
	p := c.P
	n := 0
	for _, rel := range rels {
		for _, f := range p.FuncsOfPkg(rel) {
			if errResultIndex(f) < 0 {
				continue
			}
			succ := blocksOfReturns(successReturns(f))
			for _, b := range f.Blocks {
				for _, ins := range b.Instrs {
					u, ok := ins.(*ssa.UnOp)
					if !ok || u.Op != token.ARROW || !isErrorType(u.Type()) {
						continue
					}
					n++
					c.SawFunc(f)
					cut := func(bb *ssa.BasicBlock, ifi *ssa.If) (bool, bool) {
						x, eq, ok := nilTest(ifi.Cond)
						if !ok || x != ssa.Value(u) {
							return false, false
						}
						// cut the edge on which the received error is nil
						return eq, !eq
					}
					// returns that hand the received error back are not "success without the verdict"
					tg := map[*ssa.BasicBlock]bool{}
					for _, r := range returnsOf(f) {
						if !succ[r.Block()] {
							continue
						}
						carries := false
						for _, rv := range r.Results {
							if isErrorType(rv.Type()) && backSlice(rv, SliceOpt{CallArgs: true}).Vals[u] {
								carries = true
							}
						}
						if !carries {
							tg[r.Block()] = true
						}
					}
					res := gateWalkFrom(p, f, b, tg, cut, nil)
					c.Ob(rule, "error received from a channel gates success@"+fnName(f), !res.Reached, p.Pos(u.Pos()),
						"from the receive, success is reachable only across a test of that error being nil", res.Witness...)
				}
			}
		}
	}
	return n
}
