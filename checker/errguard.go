package main

import (
	"golang.org/x/tools/go/ssa"
)

// checkResultsOnlyOnSuccess: in every top-level function of the packages, a value
// produced by a call that also returns an error may be *returned* only across that
// call's success edge, unless the same return also hands back that call's error
// (plain delegation `return v, err`). A value of a failed call is by convention
// meaningless (usually the zero value), and returning it as a result turns the
// failure into a wrong answer.
func checkResultsOnlyOnSuccess(c *Check, rule string, rels ...string) int {
	p := c.P
	n := 0
	for _, rel := range rels {
		for _, f := range p.FuncsOfPkg(rel) {
			for _, b := range f.Blocks {
				for _, ins := range b.Instrs {
					g, ok := ins.(*ssa.Call)
					if !ok {
						continue
					}
					sig := g.Call.Signature()
					nr := sig.Results().Len()
					if nr < 2 || !isErrorType(sig.Results().At(nr-1).Type()) {
						continue
					}
					errV := errOfCall(g)
					for _, r := range returnsOf(f) {
						uses, delegates := false, false
						for _, rv := range r.Results {
							sl := backSlice(rv, SliceOpt{})
							if isErrorType(rv.Type()) {
								if sl.Vals[errV] || sl.Vals[g] {
									delegates = true
								}
								continue
							}
							// the value itself (not something computed from it by another call)
							if g2, idx := resolveCallThroughLocals(rv); g2 == g && idx < nr-1 {
								uses = true
							}
						}
						if !uses || delegates {
							continue
						}
						n++
						cut := callGates(func(k *ssa.Call, _ int) GateKind {
							if k == g {
								return GateErr
							}
							return NotGate
						})
						res := gateWalk(p, f, map[*ssa.BasicBlock]bool{r.Block(): true}, cut, nil)
						c.Ob(rule, "result of "+calleeNameCI(g)+" returned by "+fnName(f)+" only on success", !res.Reached, p.Pos(r.Pos()),
							"a value produced together with an error is returned only across err == nil (or together with that error)", res.Witness...)
					}
				}
			}
		}
	}
	return n
}
