package main

// Obligation bookkeeping, known-findings handling, evidence and replay files.
// A rule instance (an "obligation") is keyed by rule + construct, never by line.

import (
	"encoding/json"
	"fmt"
	"os"
	"path/filepath"
	"sort"
	"strings"
	"time"

	"golang.org/x/tools/go/ssa"
)

type Finding struct {
	Rule      string   `json:"rule"`
	Construct string   `json:"construct"`
	Pos       string   `json:"pos"`
	Msg       string   `json:"msg"`
	Path      []string `json:"path,omitempty"`
	Known     bool     `json:"known"`
}

func (f Finding) Key() string { return f.Rule + ":" + f.Construct }

type RuleStat struct {
	Rule        string `json:"rule"`
	Desc        string `json:"desc"`
	Obligations int    `json:"obligations"`
	Discharged  int    `json:"discharged"`
}

type Check struct {
	Prop       string
	Tier       string
	P          *Program
	rules      map[string]*RuleStat
	ruleOrder  []string
	findings   []Finding
	unresolved []string
	samples    []string
	sampleSeen map[string]bool
	nontrivial map[string]bool
	evals      int
	funcs      map[string]bool
	callSites  int
	notes      []string
	t0         time.Time
	replayKey  string
	selfTest   []MutantResult
}

func newCheck(prop, tier string, p *Program) *Check {
	return &Check{Prop: prop, Tier: tier, P: p, rules: map[string]*RuleStat{}, sampleSeen: map[string]bool{},
		nontrivial: map[string]bool{}, funcs: map[string]bool{}, t0: time.Now()}
}

// Rule declares a rule with its description (printed in the evidence).
func (c *Check) Rule(rule, desc string) {
	if _, ok := c.rules[rule]; !ok {
		c.rules[rule] = &RuleStat{Rule: rule, Desc: desc}
		c.ruleOrder = append(c.ruleOrder, rule)
	}
}

// Ob records one evaluated rule instance. nontrivial means the instance had real
// structure to examine (a path, a call site, a table row).
func (c *Check) Ob(rule, construct string, ok bool, pos, detail string, path ...string) {
	rs := c.rules[rule]
	if rs == nil {
		c.Rule(rule, "")
		rs = c.rules[rule]
	}
	rs.Obligations++
	c.evals++
	c.nontrivial[rule+":"+construct] = true
	if ok {
		rs.Discharged++
		c.Sample(fmt.Sprintf("%s %s @%s: OK %s", rule, construct, pos, detail))
		if os.Getenv("CELCHECK_VERBOSE") != "" {
			fmt.Printf("OK   %s %s @%s: %s\n", rule, construct, pos, detail)
		}
		return
	}
	c.findings = append(c.findings, Finding{Rule: rule, Construct: construct, Pos: pos, Msg: detail, Path: path})
}

func (c *Check) Sample(s string) {
	if c.sampleSeen[s] {
		return
	}
	c.sampleSeen[s] = true
	c.samples = append(c.samples, s)
}

func (c *Check) Note(format string, a ...any) { c.notes = append(c.notes, fmt.Sprintf(format, a...)) }

// Unresolved: an anchor the rule needs is missing - the check fails, it never
// passes vacuously.
func (c *Check) Unresolved(rule, what string) {
	c.unresolved = append(c.unresolved, rule+": "+what)
}

// Floor fails the check (as UNRESOLVED) if a rule saw fewer instances than were
// confirmed by hand on the pinned tree.
func (c *Check) Floor(rule, what string, got, min int) {
	if got < min {
		c.Unresolved(rule, fmt.Sprintf("instance floor: %s = %d < %d", what, got, min))
	}
}

func (c *Check) SawFunc(f *ssa.Function) {
	if f != nil {
		c.funcs[fnName(f)] = true
	}
}

// ---- known findings ----

type KnownFinding struct {
	Property string `json:"property"`
	Key      string `json:"key"`
	What     string `json:"what"`
	ID       string `json:"id,omitempty"`
}

type KnownFile struct {
	Comment  string         `json:"_comment"`
	Findings []KnownFinding `json:"findings"`
	Fixed    []string       `json:"fixed"`
}

func loadKnown(path string) (*KnownFile, error) {
	kf := &KnownFile{}
	b, err := os.ReadFile(path)
	if err != nil {
		if os.IsNotExist(err) {
			return kf, nil
		}
		return nil, err
	}
	if err := json.Unmarshal(b, kf); err != nil {
		return nil, err
	}
	return kf, nil
}

// Finish prints the verdict, writes the evidence file and returns the exit code.
func (c *Check) Finish(verifDir string, seed int64, explanation string, assumptions []string) int {
	kf, err := loadKnown(filepath.Join(verifDir, "known_findings.json"))
	if err != nil {
		fmt.Printf("ERROR reading known_findings.json: %v\n", err)
		return 2
	}
	known := map[string]KnownFinding{}
	for _, k := range kf.Findings {
		if k.Property == c.Prop {
			known[k.Key] = k
		}
	}
	sort.SliceStable(c.findings, func(i, j int) bool { return c.findings[i].Key() < c.findings[j].Key() })
	// de-duplicate findings by key (one construct may be reached twice)
	var fs []Finding
	seen := map[string]bool{}
	for _, f := range c.findings {
		if seen[f.Key()] {
			continue
		}
		seen[f.Key()] = true
		if c.replayKey != "" && f.Key() != c.replayKey {
			continue
		}
		fs = append(fs, f)
	}
	newViol := 0
	usedKnown := map[string]bool{}
	replayDir := filepath.Join(verifDir, "evidence", "replay")
	for i := range fs {
		f := &fs[i]
		if k, ok := known[f.Key()]; ok {
			f.Known = true
			usedKnown[f.Key()] = true
			fmt.Printf("KNOWN-FINDING: property=%s %s [%s] %s (%s)\n", c.Prop, k.What, f.Key(), f.Msg, f.Pos)
			continue
		}
		newViol++
		os.MkdirAll(replayDir, 0o755)
		rp := filepath.Join(replayDir, sanitize(c.Prop+"-"+f.Key())+".json")
		b, _ := json.MarshalIndent(map[string]any{"property": c.Prop, "key": f.Key(), "rule": f.Rule, "construct": f.Construct,
			"pos": f.Pos, "msg": f.Msg, "path": f.Path, "rule_desc": c.ruleDesc(f.Rule)}, "", " ")
		os.WriteFile(rp, b, 0o644)
		fmt.Printf("FINDING rule=%s construct=%s at %s\n   %s\n", f.Rule, f.Construct, f.Pos, f.Msg)
		for _, s := range f.Path {
			fmt.Printf("      %s\n", s)
		}
		fmt.Printf("VIOLATION property=%s replay=%s\n", c.Prop, rp)
	}
	for k, kn := range known {
		if !usedKnown[k] && c.replayKey == "" {
			// a listed finding that no longer fires: say so (does not fail the check)
			fmt.Printf("NOTE: listed finding no longer reported: %s (%s) - move it to 'fixed' in known_findings.json\n", k, kn.What)
		}
	}
	for _, u := range c.unresolved {
		fmt.Printf("UNRESOLVED %s %s\n", c.Prop, u)
	}
	// evidence
	obl, dis := 0, 0
	var rs []RuleStat
	for _, r := range c.ruleOrder {
		obl += c.rules[r].Obligations
		dis += c.rules[r].Discharged
		rs = append(rs, *c.rules[r])
	}
	nKnown := len(fs) - newViol
	samples := c.samples
	if len(samples) > 14 {
		// keep a spread: first of each rule, then fill
		var pick []string
		seenRule := map[string]int{}
		for _, s := range samples {
			r := strings.SplitN(s, " ", 2)[0]
			if seenRule[r] < 2 {
				pick = append(pick, s)
				seenRule[r]++
			}
		}
		if len(pick) > 24 {
			pick = pick[:24]
		}
		samples = pick
	}
	var fsamples []any
	for _, s := range samples {
		fsamples = append(fsamples, s)
	}
	for _, f := range fs {
		fsamples = append(fsamples, map[string]any{"finding": f.Key(), "pos": f.Pos, "msg": f.Msg, "known": f.Known})
	}
	if len(fsamples) == 0 {
		fsamples = append(fsamples, "no instances")
	}
	var fl []string
	for f := range c.funcs {
		fl = append(fl, f)
	}
	sort.Strings(fl)
	ev := map[string]any{
		"property_id": c.Prop,
		"tier":        c.Tier,
		"seed":        seed,
		"level":       "other",
		"coverage": map[string]any{
			"explanation":            explanation,
			"obligations":            obl,
			"discharged":             dis,
			"evaluations":            c.evals,
			"distinct_nontrivial":    len(c.nontrivial),
			"rule":                   "one evaluation per rule instance (rule + construct: a function, call site, field store, table row or lock pair found in /repo's type-checked SSA on this run); an instance is distinct by its rule+construct key and non-trivial because each is a real program construct on which the rule's path/dataflow/table condition was evaluated",
			"samples":                fsamples,
			"rules":                  rs,
			"functions_analysed":     len(fl),
			"functions":              fl,
			"call_sites":             c.callSites,
			"packages_loaded":        len(c.P.Pkgs),
			"ssa_functions_in_scope": len(c.P.SrcFuncs),
			"known_findings":         nKnown,
			"new_violations":         newViol,
			"unresolved":             c.unresolved,
			"notes":                  c.notes,
			"exhaustive":             false,
			"checker_cmd":            strings.Join(os.Args, " "),
			"load_s":                 c.P.LoadS,
			"selftest_mutants":       c.selfTest,
		},
		"assumptions": assumptions,
		"wall_s":      time.Since(c.t0).Seconds() + c.P.LoadS,
		"violations":  newViol,
	}
	if c.replayKey == "" {
		os.MkdirAll(filepath.Join(verifDir, "evidence"), 0o755)
		b, _ := json.MarshalIndent(ev, "", " ")
		if err := os.WriteFile(filepath.Join(verifDir, "evidence", c.Prop+".json"), b, 0o644); err != nil {
			fmt.Printf("ERROR writing evidence: %v\n", err)
			return 2
		}
	}
	fmt.Printf("SUMMARY property=%s tier=%s rules=%d obligations=%d discharged=%d known=%d new=%d unresolved=%d functions=%d wall=%.1fs\n",
		c.Prop, c.Tier, len(rs), obl, dis, nKnown, newViol, len(c.unresolved), len(fl), time.Since(c.t0).Seconds()+c.P.LoadS)
	for _, r := range rs {
		fmt.Printf("  %-8s %3d/%-3d %s\n", r.Rule, r.Discharged, r.Obligations, r.Desc)
	}
	if newViol > 0 {
		return 1
	}
	if len(c.unresolved) > 0 {
		return 2
	}
	return 0
}

func (c *Check) ruleDesc(r string) string {
	if rs := c.rules[r]; rs != nil {
		return rs.Desc
	}
	return ""
}

func sanitize(s string) string {
	var b strings.Builder
	for _, r := range s {
		switch {
		case r >= 'a' && r <= 'z', r >= 'A' && r <= 'Z', r >= '0' && r <= '9', r == '-', r == '.', r == '_':
			b.WriteRune(r)
		default:
			b.WriteByte('_')
		}
	}
	out := b.String()
	if len(out) > 150 {
		out = out[:150]
	}
	return out
}
