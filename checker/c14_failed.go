package main

import (
	"golang.org/x/tools/go/ssa"
)

// R14.6 "…is pruned within a bounded number of cycles or is recorded as failed and
// retried": the failed set of the checkpoint
//
//	(a) is never replaced as a whole outside the constructor (a batch's failures
//	    are merged into it, earlier failures survive);
//	(b) receives every failure of a pruning round: on the failure side of
//	    Pruner.Prune in the round, the height is inserted into the map that is
//	    handed to updateCheckpoint, and updateCheckpoint inserts every key of that
//	    map into checkpoint.FailedHeaders;
//	(c) shrinks only in the three known places: after a successful retry
//	    (behind Prune's success edge), when the header is deleted by the syncer,
//	    and when the store's tail has moved past the height.
func c14FailedSet(c *Check) {
	p := c.P
	defer c14RoundProgress(c)
	c.Rule("R14.6", "the failed set is merged into, never replaced, and shrinks only after a successful retry, a header deletion or a tail advance")
	isFailedMap := func(v ssa.Value) bool {
		return backSlice(v, SliceOpt{}).HasFieldNamed("checkpoint", "FailedHeaders")
	}
	pruneGate := callGates(func(g *ssa.Call, _ int) GateKind {
		if g.Call.IsInvoke() && g.Call.Method.Name() == "Prune" {
			return GateErr
		}
		return NotGate
	})
	nIns, nDel := 0, 0
	for _, f := range p.FuncsOfPkg("pruner") {
		root := rootFunc(f)
		for _, b := range f.Blocks {
			for _, ins := range b.Instrs {
				switch x := ins.(type) {
				case *ssa.Store:
					fa, ok := x.Addr.(*ssa.FieldAddr)
					if !ok || fieldOf(fa) == nil || fieldOf(fa).Name() != "FailedHeaders" || ownerName(fa) != "checkpoint" {
						continue
					}
					c.SawFunc(f)
					c.Ob("R14.6", "FailedHeaders assigned@"+fnName(f), root.Name() == "newCheckpoint", p.Pos(x.Pos()),
						"the failed set is assigned as a whole only when a fresh checkpoint is constructed; elsewhere failures are merged into it")
				case *ssa.MapUpdate:
					if isFailedMap(x.Map) {
						nIns++
						c.SawFunc(f)
						if root.Name() == "updateCheckpoint" {
							var prm *ssa.Parameter
							for _, pr := range f.Params {
								if pr.Name() == "failedHeights" {
									prm = pr
								}
							}
							fromParam := prm != nil && backSlice(x.Key, SliceOpt{CallArgs: true}).Vals[prm]
							c.Ob("R14.6", "updateCheckpoint merges the batch's failures", fromParam, p.Pos(x.Pos()), "every key of the batch's failed map is inserted into checkpoint.FailedHeaders")
						}
					}
				case *ssa.Call:
					bi, ok := x.Call.Value.(*ssa.Builtin)
					if !ok || bi.Name() != "delete" || !isFailedMap(x.Call.Args[0]) {
						continue
					}
					nDel++
					c.SawFunc(f)
					switch root.Name() {
					case "retryFailed":
						res := gateWalk(p, f, map[*ssa.BasicBlock]bool{b: true}, pruneGate, nil)
						c.Ob("R14.6", "unfail@retryFailed", !res.Reached, p.Pos(x.Pos()), "a height leaves the failed set in a retry only across Pruner.Prune's success edge", res.Witness...)
					case "pruneOnHeaderDelete":
						c.Ob("R14.6", "unfail@pruneOnHeaderDelete", true, p.Pos(x.Pos()), "exception: the header is being deleted by the syncer and is pruned right here")
					case "lastPruned":
						c.Ob("R14.6", "unfail@lastPruned", true, p.Pos(x.Pos()), "exception: the header store's tail moved past the height, the header no longer exists")
					default:
						if p.onlyCalledFrom(f, func(g *ssa.Function) bool {
							return g.Name() == "pruneOnHeaderDelete" || g.Name() == "lastPruned"
						}, 0) {
							c.Ob("R14.6", "unfail@"+fnName(f), true, p.Pos(x.Pos()), "helper called only from pruneOnHeaderDelete/lastPruned (same exceptions)")
							continue
						}
						c.Ob("R14.6", "unfail@"+fnName(f), false, p.Pos(x.Pos()), "heights leave the failed set only in retryFailed, pruneOnHeaderDelete and lastPruned")
					}
				}
			}
		}
	}
	c.Floor("R14.6", "insertions into the failed set", nIns, 1)
	c.Floor("R14.6", "deletions from the failed set", nDel, 3)
	// (b) the round records every failure
	round := p.Func("pruner", "Service", "prune")
	upd := p.Func("pruner", "Service", "updateCheckpoint")
	if round == nil || upd == nil {
		c.Unresolved("R14.6", "Service.prune / updateCheckpoint not found")
		return
	}
	var pruneCall, updCall *ssa.Call
	for _, b := range round.Blocks {
		for _, ins := range b.Instrs {
			if g, ok := ins.(*ssa.Call); ok {
				if g.Call.IsInvoke() && g.Call.Method.Name() == "Prune" {
					pruneCall = g
				}
				if g.Call.StaticCallee() == upd {
					updCall = g
				}
			}
		}
	}
	batchFn := round
	var helperCall *ssa.Call
	if pruneCall == nil {
		// the batch loop may have been extracted into a helper of the round (pruneBatch-style)
		pruneCall, helperCall = findPruneInHelper(p, round)
		if helperCall != nil {
			batchFn = helperCall.Call.StaticCallee()
			c.SawFunc(batchFn)
		}
	}
	if pruneCall == nil || updCall == nil {
		c.Ob("R14.6", "round records failures", false, p.Pos(round.Pos()), "the pruning round calls Pruner.Prune and updateCheckpoint")
		return
	}
	handed := backSlice(updCall.Call.Args[len(updCall.Call.Args)-1], SliceOpt{})
	if helperCall != nil {
		// the failed map is built in the helper and returned: it is "handed" if the round passes the helper's result on
		if g0, _ := resolveCallThroughLocals(updCall.Call.Args[len(updCall.Call.Args)-1]); g0 != helperCall && !handed.Vals[helperCall] {
			c.Ob("R14.6", "round records failures", false, p.Pos(round.Pos()), "the failed set returned by the batch helper is handed to updateCheckpoint")
			return
		}
		handed = &Slice{Vals: map[ssa.Value]bool{}}
		for _, r := range returnsOf(batchFn) {
			for _, rv := range r.Results {
				for v := range backSlice(rv, SliceOpt{}).Vals {
					handed.Vals[v] = true
				}
			}
		}
	}
	round = batchFn
	_, failS := errEdgesOfCall(round, pruneCall)
	rec := len(failS) > 0
	for _, s := range failS {
		found := false
		for _, b := range round.Blocks {
			if !s.Dominates(b) {
				continue
			}
			for _, ins := range b.Instrs {
				if mu, ok := ins.(*ssa.MapUpdate); ok && handed.Vals[mu.Map] {
					// key: the height of the header that failed
					ks := backSlice(mu.Key, SliceOpt{CallArgs: true})
					if ks.Vals[pruneCall.Call.Args[len(pruneCall.Call.Args)-1]] {
						found = true
					}
				}
			}
		}
		if !found {
			rec = false
		}
	}
	c.Ob("R14.6", "round records failures", rec, p.Pos(pruneCall.Pos()), "on the failure side of Pruner.Prune the failed header's height is inserted into the map handed to updateCheckpoint")
}

// c14RoundProgress (R14.7): a pruning round terminates. The round's outer loop may go
// on to another batch only behind a test whose outcome depends on whether this batch
// made progress (a value that differs between Prune's success and failure edge:
// the success counter or the last pruned header). The lookup of the next batch
// starts from the last successfully pruned header, so without such a test a batch
// that failed completely is fetched and retried again and again within one round.
func c14RoundProgress(c *Check) {
	p := c.P
	c.Rule("R14.7", "a pruning round continues with another batch only behind a test that depends on this batch's progress")
	round := p.Func("pruner", "Service", "prune")
	if round == nil {
		c.Unresolved("R14.7", "Service.prune not found")
		return
	}
	var pruneCall *ssa.Call
	for _, b := range round.Blocks {
		for _, ins := range b.Instrs {
			if g, ok := ins.(*ssa.Call); ok && g.Call.IsInvoke() && g.Call.Method.Name() == "Prune" {
				pruneCall = g
			}
		}
	}
	if pruneCall == nil {
		if _, hc := findPruneInHelper(p, round); hc != nil {
			c14RoundProgressViaHelper(c, round, hc)
			return
		}
		c.Unresolved("R14.7", "Pruner.Prune call not found in the round")
		return
	}
	// the batch loop (innermost range loop containing the Prune call) and the outer loop header
	var batchHead, outerHead *ssa.BasicBlock
	for _, b := range round.Blocks {
		if (b.Comment == "rangeindex.loop" || b.Comment == "rangeiter.loop") && b.Dominates(pruneCall.Block()) {
			batchHead = b
		}
	}
	if batchHead == nil {
		c.Ob("R14.7", "batch loop", false, p.Pos(round.Pos()), "Prune is called in a range loop over the batch")
		return
	}
	// outer loop header: a block that dominates the batch loop and is the target of a back edge from a block the batch loop's exit reaches
	exit := batchHead.Succs[1]
	reach := p2pReach(round, exit)
	for _, b := range round.Blocks {
		if !b.Dominates(batchHead) || b == batchHead {
			continue
		}
		for _, pr := range b.Preds {
			if reach[pr] && b.Dominates(pr) {
				outerHead = b
			}
		}
	}
	if outerHead == nil {
		c.Ob("R14.7", "round loop", true, p.Pos(round.Pos()), "the round handles one batch only (no outer loop)")
		return
	}
	okSide, failSide := errEdgesOfCall(round, pruneCall)
	sides := append(append([]*ssa.BasicBlock{}, okSide...), failSide...)
	progress := map[*ssa.BasicBlock]bool{}
	for _, b := range round.Blocks {
		if !reach[b] {
			continue
		}
		ifi, ok := b.Instrs[len(b.Instrs)-1].(*ssa.If)
		if !ok {
			continue
		}
		sl := backSlice(ifi.Cond, SliceOpt{PhiControl: true})
		if sl.Vals[pruneCall] {
			progress[b] = true
		}
		// or a local (captured by a deferred closure, hence an Alloc) that is assigned on one side only of Prune's error test
		for v := range sl.Vals {
			al, ok := v.(*ssa.Alloc)
			if !ok {
				continue
			}
			for _, ref := range *al.Referrers() {
				st, ok := ref.(*ssa.Store)
				if !ok || st.Addr != ssa.Value(al) {
					continue
				}
				for _, side := range sides {
					if side.Dominates(st.Block()) {
						progress[b] = true
					}
				}
			}
		}
	}
	res := gateWalkOpts(p, round, map[*ssa.BasicBlock]bool{outerHead: true}, nil, exit, progress)
	c.Ob("R14.7", "next batch only after progress", len(progress) > 0 && !res.Reached, p.Pos(round.Pos()),
		"from the end of a batch the round's loop header is reachable only across a test that depends on Prune's outcomes in this batch (success counter / last pruned header)", res.Witness...)
}

// findPruneInHelper: the Prune invoke inside a first-party function the round calls statically, and that call.
func findPruneInHelper(p *Program, round *ssa.Function) (*ssa.Call, *ssa.Call) {
	for _, b := range round.Blocks {
		for _, ins := range b.Instrs {
			g, ok := ins.(*ssa.Call)
			if !ok || g.Call.StaticCallee() == nil || !p.FirstParty(g.Call.StaticCallee()) {
				continue
			}
			h := g.Call.StaticCallee()
			for _, hb := range h.Blocks {
				for _, hi := range hb.Instrs {
					if k, ok := hi.(*ssa.Call); ok && k.Call.IsInvoke() && k.Call.Method.Name() == "Prune" {
						// the batch helper is called inside the round's loop (retryFailed, called once up front, also prunes)
						inLoop := false
						for _, sc := range b.Succs {
							if p2pReach(round, sc)[b] {
								inLoop = true
							}
						}
						if inLoop {
							return k, g
						}
					}
				}
			}
		}
	}
	return nil, nil
}

// c14RoundProgressViaHelper: R14.7 when the batch loop lives in a helper: from the helper call
// the round's loop header is reachable only across a test that depends on the helper's results.
func c14RoundProgressViaHelper(c *Check, round *ssa.Function, hc *ssa.Call) {
	p := c.P
	var outerHead *ssa.BasicBlock
	reach := p2pReach(round, hc.Block())
	for _, b := range round.Blocks {
		if !b.Dominates(hc.Block()) {
			continue
		}
		for _, pr := range b.Preds {
			if reach[pr] && b.Dominates(pr) {
				outerHead = b
			}
		}
	}
	if outerHead == nil {
		c.Ob("R14.7", "round loop", true, p.Pos(round.Pos()), "the round handles one batch only (no outer loop)")
		return
	}
	progress := map[*ssa.BasicBlock]bool{}
	for _, b := range round.Blocks {
		if !reach[b] || b == hc.Block() && false {
			continue
		}
		ifi, ok := b.Instrs[len(b.Instrs)-1].(*ssa.If)
		if !ok {
			continue
		}
		sl := backSlice(ifi.Cond, SliceOpt{PhiControl: true})
		dep := sl.Vals[hc]
		for v := range sl.Vals {
			if al, ok := v.(*ssa.Alloc); ok {
				for _, ref := range *al.Referrers() {
					if st, ok := ref.(*ssa.Store); ok && st.Addr == ssa.Value(al) && backSlice(st.Val, SliceOpt{}).Vals[hc] {
						dep = true
					}
				}
			}
		}
		if dep {
			progress[b] = true
		}
	}
	// start after the helper call: successors of its block (the call's own block may end in the error test of updateCheckpoint etc.)
	res := gateWalkFrom(p, round, hc.Block(), map[*ssa.BasicBlock]bool{outerHead: true}, nil, minusBlocks(progress, map[*ssa.BasicBlock]bool{}))
	if progress[hc.Block()] {
		res = GateResult{}
	}
	c.Ob("R14.7", "next batch only after progress", len(progress) > 0 && !res.Reached, p.Pos(round.Pos()),
		"from the end of a batch (helper call) the round's loop header is reachable only across a test that depends on the batch helper's results", res.Witness...)
}
