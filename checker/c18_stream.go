package main

import (
	"go/token"

	"golang.org/x/tools/go/ssa"
)

// R18.7: the length-delimited stream form of RangeNamespaceData carries the
// two partial-row proofs by row position (first row / last row). Writer and
// reader must agree on that attribution: in both WriteTo and ReadFrom the
// first-row proof is touched only on the `index == 0` side of a test of the
// row loop's index and the last-row proof only on the other side. A reader
// that attributes proofs by anything else (for instance "first non-nil one")
// changes a container whose only proof belongs to the last row.
func c18StreamProofs(c *Check) {
	p := c.P
	c.Rule("R18.7", "stream form of the range container attributes the partial-row proofs by row position, writer and reader alike")
	n := 0
	for _, name := range []string{"WriteTo", "ReadFrom"} {
		fn := p.Func("share/shwap", "RangeNamespaceData", name)
		if fn == nil {
			c.Unresolved("R18.7", "RangeNamespaceData."+name+" not found")
			continue
		}
		c.SawFunc(fn)
		// tests `idx == 0` where idx is defined in a range-loop header
		isIdx := func(v ssa.Value) bool {
			ins, ok := v.(ssa.Instruction)
			if !ok || ins.Block() == nil {
				return false
			}
			cm := ins.Block().Comment
			return cm == "rangeindex.loop" || cm == "rangeiter.loop" || cm == "for.loop" || cm == "for.post"
		}
		zeroCut := func(firstSide bool) EdgeCut {
			return func(b *ssa.BasicBlock, ifi *ssa.If) (bool, bool) {
				a := stripNot(ifi.Cond)
				bo, ok := a.Base.(*ssa.BinOp)
				if !ok || (bo.Op != token.EQL && bo.Op != token.NEQ) {
					return false, false
				}
				var other ssa.Value
				switch {
				case isIdx(bo.X):
					other = bo.Y
				case isIdx(bo.Y):
					other = bo.X
				default:
					return false, false
				}
				k, ok := other.(*ssa.Const)
				if !ok || k.Value == nil || k.Int64() != 0 {
					return false, false
				}
				eqOnTrue := (bo.Op == token.EQL) != a.Neg // true edge means idx == 0
				// cut the side we want the access to be on
				if firstSide {
					return eqOnTrue, !eqOnTrue
				}
				return !eqOnTrue, eqOnTrue
			}
		}
		var loopHead *ssa.BasicBlock
		for _, b := range fn.Blocks {
			if b.Comment == "rangeindex.loop" || b.Comment == "rangeiter.loop" {
				loopHead = b
			}
		}
		if loopHead == nil {
			c.Ob("R18.7", name+": row loop", false, p.Pos(fn.Pos()), "a loop over the rows attributes the proofs")
			continue
		}
		for _, fld := range []struct {
			name  string
			first bool
		}{{"FirstIncompleteRowProof", true}, {"LastIncompleteRowProof", false}} {
			acc := blocksWhere(fn, func(ins ssa.Instruction) bool {
				if ins.Block() == nil || !loopHead.Dominates(ins.Block()) || ins.Block() == loopHead {
					return false
				}
				switch x := ins.(type) {
				case *ssa.Store:
					if f := fieldOfAddr(x.Addr); f != nil && f.Name() == fld.name {
						if k, ok := x.Val.(*ssa.Const); ok && k.IsNil() {
							return false
						}
						return true
					}
				case *ssa.UnOp:
					if name == "WriteTo" && x.Op == token.MUL {
						if f := fieldOfAddr(x.X); f != nil && f.Name() == fld.name {
							return true
						}
					}
				}
				return false
			})
			// only the loop body counts (the loop's exit block is dominated too, but holds no access today)
			if len(acc) == 0 {
				c.Ob("R18.7", name+": "+fld.name+" carried", false, p.Pos(fn.Pos()), "the stream form carries "+fld.name+" inside the row loop")
				continue
			}
			n++
			res := gateWalkFrom(p, fn, loopHead, acc, zeroCut(fld.first), nil)
			side := "index == 0"
			if !fld.first {
				side = "index != 0"
			}
			c.Ob("R18.7", name+": "+fld.name+" by row position", !res.Reached, p.Pos(fn.Pos()),
				fld.name+" is read/assigned only on the "+side+" side of a test of the row index (same attribution in writer and reader)", res.Witness...)
		}
	}
	c.Floor("R18.7", "proof attributions in the range container's stream form", n, 4)
}
