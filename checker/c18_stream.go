package main

import (
	"go/token"

	"golang.org/x/tools/go/ssa"
)

// R18.7: the length-delimited stream form of RangeNamespaceData carries the
// two partial-row proofs by row position (first row / last row). Writer and
// reader must agree on that attribution: in both WriteTo and ReadFrom the
// first-row proof is touched only on the `index == 0` side of a test of the
// row loop's index and the last-row proof only on the other side. A reader
// that attributes proofs by anything else (for instance "first non-nil one")
// changes a container whose only proof belongs to the last row.
func c18StreamProofs(c *Check) {
	p := c.P
	c.Rule("R18.7", "stream form of the range container attributes the partial-row proofs by row position, writer and reader alike")
	n := 0
	for _, name := range []string{"WriteTo", "ReadFrom"} {
		fn := p.Func("share/shwap", "RangeNamespaceData", name)
		if fn == nil {
			c.Unresolved("R18.7", "RangeNamespaceData."+name+" not found")
			continue
		}
		c.SawFunc(fn)
		// tests `idx == 0` where idx is defined in a range-loop header
		isIdx := func(v ssa.Value) bool {
			ins, ok := v.(ssa.Instruction)
			if !ok || ins.Block() == nil {
				return false
			}
			cm := ins.Block().Comment
			return cm == "rangeindex.loop" || cm == "rangeiter.loop" || cm == "for.loop" || cm == "for.post"
		}
		zeroCut := func(firstSide bool) EdgeCut {
			return func(b *ssa.BasicBlock, ifi *ssa.If) (bool, bool) {
				a := stripNot(ifi.Cond)
				bo, ok := a.Base.(*ssa.BinOp)
				if !ok || (bo.Op != token.EQL && bo.Op != token.NEQ) {
					return false, false
				}
				var other ssa.Value
				switch {
				case isIdx(bo.X):
					other = bo.Y
				case isIdx(bo.Y):
					other = bo.X
				default:
					return false, false
				}
				k, ok := other.(*ssa.Const)
				if !ok || k.Value == nil || k.Int64() != 0 {
					return false, false
				}
				eqOnTrue := (bo.Op == token.EQL) != a.Neg // true edge means idx == 0
				// cut the side we want the access to be on
				if firstSide {
					return eqOnTrue, !eqOnTrue
				}
				return !eqOnTrue, eqOnTrue
			}
		}
		var loopHead *ssa.BasicBlock
		for _, b := range fn.Blocks {
			if b.Comment == "rangeindex.loop" || b.Comment == "rangeiter.loop" {
				loopHead = b
			}
		}
		if loopHead == nil {
			c.Ob("R18.7", name+": row loop", false, p.Pos(fn.Pos()), "a loop over the rows attributes the proofs")
			continue
		}
		for _, fld := range []struct {
			name  string
			first bool
		}{{"FirstIncompleteRowProof", true}, {"LastIncompleteRowProof", false}} {
			acc := blocksWhere(fn, func(ins ssa.Instruction) bool {
				if ins.Block() == nil || !loopHead.Dominates(ins.Block()) || ins.Block() == loopHead {
					return false
				}
				switch x := ins.(type) {
				case *ssa.Store:
					if f := fieldOfAddr(x.Addr); f != nil && f.Name() == fld.name {
						if k, ok := x.Val.(*ssa.Const); ok && k.IsNil() {
							return false
						}
						return true
					}
				case *ssa.UnOp:
					if name == "WriteTo" && x.Op == token.MUL {
						if f := fieldOfAddr(x.X); f != nil && f.Name() == fld.name {
							return true
						}
					}
				}
				return false
			})
			// only the loop body counts (the loop's exit block is dominated too, but holds no access today)
			if len(acc) == 0 {
				c.Ob("R18.7", name+": "+fld.name+" carried", false, p.Pos(fn.Pos()), "the stream form carries "+fld.name+" inside the row loop")
				continue
			}
			n++
			res := gateWalkFrom(p, fn, loopHead, acc, zeroCut(fld.first), nil)
			side := "index == 0"
			if !fld.first {
				side = "index != 0"
			}
			c.Ob("R18.7", name+": "+fld.name+" by row position", !res.Reached, p.Pos(fn.Pos()),
				fld.name+" is read/assigned only on the "+side+" side of a test of the row index (same attribution in writer and reader)", res.Witness...)
		}
	}
	c.Floor("R18.7", "proof attributions in the range container's stream form", n, 4)
}

// c18CleanEOF (R18.8): the length-delimited stream decoders end their input on a clean io.EOF
// only. io.ErrUnexpectedEOF means a message was cut off in the middle; a decoder that treats it
// as the end of the stream returns a container with fewer rows than were sent as a success.
func c18CleanEOF(c *Check) {
	p := c.P
	c.Rule("R18.8", "stream decoders end on a clean io.EOF only: a message cut off in the middle (io.ErrUnexpectedEOF) never leads to a success return")
	nEOF := 0
	for _, f := range p.FuncsOfPkg("share/shwap") {
		if f.Name() != "ReadFrom" || f.Parent() != nil {
			continue
		}
		succ := blocksOfReturns(successReturns(f))
		for _, b := range f.Blocks {
			ifi, ok := b.Instrs[len(b.Instrs)-1].(*ssa.If)
			if !ok {
				continue
			}
			a := stripNot(ifi.Cond)
			var which string
			switch x := a.Base.(type) {
			case *ssa.Call:
				if o := calleeObj(&x.Call); o != nil && pkgPathOf(o) == "errors" && o.Name() == "Is" && len(x.Call.Args) == 2 {
					if u, ok := x.Call.Args[1].(*ssa.UnOp); ok {
						if g, ok := u.X.(*ssa.Global); ok && g.Pkg != nil && g.Pkg.Pkg.Path() == "io" {
							which = g.Name()
						}
					}
				}
			case *ssa.BinOp:
				for _, v := range []ssa.Value{x.X, x.Y} {
					if u, ok := v.(*ssa.UnOp); ok {
						if g, ok := u.X.(*ssa.Global); ok && g.Pkg != nil && g.Pkg.Pkg.Path() == "io" {
							which = g.Name()
							if x.Op == token.NEQ {
								a.Neg = !a.Neg
							}
						}
					}
				}
			}
			if which == "" {
				continue
			}
			if which == "EOF" {
				nEOF++
				continue
			}
			if which != "ErrUnexpectedEOF" {
				continue
			}
			side := b.Succs[0]
			if a.Neg {
				side = b.Succs[1]
			}
			c.SawFunc(f)
			res := gateWalk(p, f, succ, nil, side)
			c.Ob("R18.8", "ErrUnexpectedEOF@"+fnName(f), !res.Reached, p.Pos(ifi.Pos()), "from the branch on which the error is io.ErrUnexpectedEOF no success return is reachable", res.Witness...)
		}
	}
	c.Floor("R18.8", "clean-EOF tests in the stream decoders of share/shwap", nEOF, 1)
}
