#!/usr/bin/env python3
"""Regenerates /verif/MANIFEST.json from the table below (kept next to the
checker so that claim texts and rule lists are edited in one place)."""
import json, os

HERE = os.path.dirname(os.path.abspath(__file__))

BASELINE = ("for m in $(cat /w/out/gomods.txt); do MF=$(cd /repo/$m && . /w/out/goenv.sh && gomodflag); "
            "(cd /repo/$m && go test $MF -json -vet=off -count=1 -timeout 25m ./...); done")

TRUST = ("Trusted base: go/types + go/ssa (x/tools v0.29.0) lowering of /repo's current working tree; the call-graph policy "
         "(static callees, VTA, CHA fallback for interface calls only); the frozen tables in the checker (anchors, dependency-API summaries, "
         "sink classes), each confirmed by reading. Decides a structural necessary condition, not the behaviour.")

# id -> (claimed?, technique, level text, design_ref, not-applicable reason)
CHECKS = {
    "C01": dict(
        technique="gate walk (must-cross-success-edge with predicate facts) + backward dataflow slices on SSA of every shwap verifier and every verifier call site",
        text="Level 'other': decides, for every verifier found by signature and every path through it, that acceptance is control-dependent on a cryptographic comparison of trusted roots with the response, that every requested-position parameter gates acceptance, that nmt proof ranges are bound to the request (or their absence is justified by it), that no verdict is ignored, and that every external call site passes header-derived roots and request-derived positions. A structural necessary condition for all inputs at once; cryptographic soundness and arithmetic correctness are not decided.",
        design="DESIGN.md §3 C01"),
    "C02": dict(
        technique="gate walk with seeded predicate facts + dataflow slices + callee identity (completeness primitive) on SSA",
        text="Level 'other': decides that the namespace verifier derives the row set locally from trusted roots, binds count/order/index of the response rows to it, verifies every row inside a fully gated loop, that the accepting gate resolves to nmt's completeness-checking VerifyNamespace (range path: completeness flag constant and forwarded unchanged), and that the four inconsistent shares/proof combinations cannot reach a success return (path-sensitive walk seeded with the combination). NMT soundness and producer equality are not decided.",
        design="DESIGN.md §3 C02"),
    "C04": dict(
        technique="who-may-write / provenance over SSA (cursor vs. persisted job kinds read from newCheckpoint's own code), single-owner call-site enumeration, gate and barrier walks (stop ordering, job-created-implies-run)",
        text="Level 'other', structural part only: decides that every job kind created while the catch-up cursor advances is kept covered by the checkpoint writer (kinds are read from the checkpoint code, not frozen), that the persisted resume range is copied unchanged, that coordinator state is written only from the coordinator goroutine's functions, that the final checkpoint is taken after cancel and a successful wait, and that a created job is always run. The invariant 'every height is in exactly one set' over interleavings and crash points is not decided.",
        design="DESIGN.md §3 C04"),
    "C05": dict(
        technique="sibling/forwarder agreement over all eds.Accessor implementations + provenance of accessors returned by the store + writer/reader layout table extracted from the typed syntax tree",
        text="Level 'other', three necessary conditions: every pure forwarding method of every accessor wrapper calls the same-named method with parameters in order; every accessor the store hands out derives from the validating/close-once/proofs-cache wrapper or a cache lookup; the file header is written and read at the same byte ranges and the ODS writer omits exactly what the readers substitute (tail padding). Byte equality of contents across representations and the proofs cache's consistency are value-level and not decided.",
        design="DESIGN.md §3 C05"),
    "C07": dict(
        technique="gate walks with seeded predicate facts (link-after-complete), constant flag evaluation (exclusive create), barrier walks (rollback), acquire/release pairing of file descriptors",
        text="Level 'other', ordering and pairing only: decides that a height link is created only across a successful create or a successful validate/recover of an existing file (fact-carrying walk), that write-mode opens are exclusive creates, that error returns pass a rollback, that descriptors are closed on every failure path, and that the empty block is only linked. Post-crash directory states are not enumerated.",
        design="DESIGN.md §3 C07"),
    "C08": dict(
        technique="lock-order graph over four packages (stripes as one class, interface and loader-closure edges) + guarded-by with call-path propagation + check-then-add critical-section rule + lock pairing + close-once guard sibling agreement",
        text="Level 'other', locks and resources: decides that the lock-order graph across store, cache, file and accessor wrappers is acyclic, that lazily filled state is accessed under its lock (reasoned exceptions), that the accessor cache looks up and adds within one critical section, that every function releases what it locks, and that every close-once method tests the closed flag first. Torn reads, termination and linearizability are schedule-dependent and not decided.",
        design="DESIGN.md §3 C08"),
    "C06": dict(
        technique="escape analysis of decoded responses over SSA closures (verified-before-escape with kill on the failure edge) + definite-assignment of decoder receivers + status-table agreement + panic reachability over the call graph + acquire/release pairing",
        text="Level 'other': decides that a response decoded from a peer can reach a return of the shrex getter only across the verifying executeRequest's success edge or after being overwritten; that bitswap containers are written only behind id equality and verification; that every pointer-receiver decoder fully overwrites its receiver on every success path (no state of a rejected response survives a retry); that the client handles every status the server writes and not-found is reported as not-found through all layers; that no explicit panic is reachable from the network getters (call paths printed); that store getters close accessors and the cascade discards failed getters' values. Retry dynamics and deadlines are not decided.",
        design="DESIGN.md §3 C06"),
    "C09": dict(
        technique="acquire/release pairing and gate walks on the request handler's SSA + registry/table agreement + validation-wrapper coverage by interface method enumeration + panic reachability",
        text="Level 'other': decides that the server's handler closes the accessor and releases exactly the reserved memory on every path, that registry, request implementations and per-protocol limits agree, that every status written has a case, that handlers are registered under the recovery middleware, that the store is reached only after a complete read and Validate, and that every index-bearing accessor method is overridden by the bounds-checking wrapper with a size-dependent rejecting check. Equality of replies with the requested data is not decided.",
        design="DESIGN.md §3 C09"),
    "C10": dict(
        technique="gate walks with dataflow identity (stored value == verified value) on every bitswap.Block implementation + constant-table agreement between registry and CID encoders + atomic-registry who-may-call",
        text="Level 'other': decides for every type implementing bitswap.Block that its Container is stored only across ID equality with the decoded id and a successful verification (against the closure's root) of the very value stored, and by no other writer; that the hasher's digest is set only across UnmarshalFn success and is the CID's id; that CIDs are validated against the registered spec; that the shared registry is written atomically; that registry and CID() constants, id sizes and builders agree and codes are distinct; that the serving side converts only populated blocks. CID/ID bijection on values is not decided.",
        design="DESIGN.md §3 C10"),
    "C12": dict(
        technique="untrusted-input index/nil discipline (cross-sequence indexing and pointer dereference only behind rejecting length/nil tests, through validation-method summaries) + gate walks + dependency-protocol typestate (Validate before VerifyProof)",
        text="Level 'other': decides on the proof-checking surface that an element access indexed by another sequence's loop variable is reachable only across a rejecting comparison of the two lengths, that pointers taken from client-supplied containers are dereferenced only across a rejecting nil test, that every verification argument gates success and no sub-verdict is ignored, that RowProof.VerifyProof is reached only after RowProof.Validate succeeded on the same proof, that blobstream proves only validated ranges, that Included answers true only across the comparison of the node's own proof with the supplied one, and (shared with C01) that share-range verification binds proof positions to the requested range by equality. Completeness and cryptographic soundness are not decided.",
        design="DESIGN.md §3 C12"),
    "C20": dict(
        technique="barrier/gate walks over the subscription goroutine's SSA (one send per header, retry exit, overflow test) + close/send who-may-call + natural-loop enumeration with cancellation-source sibling agreement",
        text="Level 'other', loop structure only: decides that every path from receiving a header back to waiting for the next crosses exactly one send whose fields derive from that header and from getAll for it, that the send is reached only across getAll success, that retrieval starts only on the not-full side of the len==cap test, that the channel is closed once by a defer in the only sender, and that every nested loop observes all cancellation sources of the outer select. Ordering under schedules and promptness in time are not decided.",
        design="DESIGN.md §3 C20"),
    "C13": dict(
        technique="barrier/gate walks on SSA (result-or-own-cancellation, limit guards, done-check after mutation) + map read-before-delete ordering + dataflow provenance of retry attempts",
        text="Level 'other', four structural conditions: a worker returns without reporting only behind a test of its own context; every runWorker call is guarded by the configured concurrency predicates (shape checked) and created jobs are run; every state mutation that can complete catch-up is followed by checkDone before the coordinator blocks; retry attempts are read before cleanup, derive from the previous attempt and only increment. Liveness under fairness and statistics-vs-reality are not decided.",
        design="DESIGN.md §3 C13"),
    "C03": dict(
        technique="gate walks on SSA over the sampling session (verified-before-counted, nothing-returned-is-not-success, cancellation classified by the caller's context) + dataflow provenance of the stored result + guarded-by on the sampling result",
        text="Level 'other': decides that light availability reports success only across the path on which every selected sample was fetched and verified by the getter, that a sample is recorded as done only behind a nil error and a non-empty verified response for that coordinate, that the persisted result derives from the session's own samples, that failures map to ErrNotAvailable and the caller's cancellation is passed on, and that the sampling result is guarded by its lock. Probability arithmetic and the number of samples needed are not decided.",
        design="DESIGN.md §3 C03"),
    "C14": dict(
        technique="who-may-call + dominator check of the cutoff filter over every producing return + dataflow provenance of the cutoff + guarded-by obligations + polarity-aware gate walk from each lock acquisition to each checkpoint store",
        text="Level 'other': decides that Pruner.Prune is called only from the round, retry and header-delete sites with headers from findPruneableHeaders; that every header slice returned for pruning passed the head-time-minus-window filter; that an archival node removes only the parity quadrant; that the checkpoint is accessed only under checkpointMu; that LastPrunedHeight is stored only behind a comparison with the current value made under the same lock hold. Height estimation, termination and eventual pruning are not decided.",
        design="DESIGN.md §3 C14"),
    "C15": dict(
        technique="dataflow identity of header/square/height at every store call + gate walks (publish only across store success, failure sides never reach success or Put) + sibling agreement of the window/archival policy",
        text="Level 'other': decides that at every storeEDS call the header was constructed over the very square being stored and from the same fetched block, that Put* receives that header's roots and height, that dedup shortcuts are height-keyed, that broadcasts and returned headers are reachable only across a successful store and failures are reported, that storeEDS, full.SharesAvailable and the listener's historic drop implement the same window/archival policy, and full availability's error mapping. Histories of announcements and published-once are not decided.",
        design="DESIGN.md §3 C15"),
    "C16": dict(
        technique="pairwise binding gates on SSA (each required field pair compared on a rejecting branch before success) + dataflow sources of message id/hash + enumeration of first-party acceptance sites",
        text="Level 'other': decides that ExtendedHeader.Validate returns nil only across rejecting comparisons of each field pair the property names and the success edges of commit verification and the ValidateBasic calls, that Verify binds adjacent and non-adjacent headers by the named pairs, that MsgID and Hash derive only from the commit's block id, and lists first-party acceptance sites that call Validate. Signature arithmetic and the dependency's sync pipeline are not decided.",
        design="DESIGN.md §3 C16"),
    "C17": dict(
        technique="lock-order graph with cycle detection (held sets over the CFG, calls and VTA-resolved function values) + guarded-by obligations propagated to root callers + gate walks on status transitions and offers",
        text="Level 'other': decides that the lock-order graph of the peers package has no cycle (through calls and callbacks), that pool/queue/manager state is accessed only under its mutex on every call path, that a peer is offered only if active, promoted only behind a validated hash, added or offered only behind the blacklist/unreachable check for that same peer, re-activated only from cool-down/absent/removed, and that the active counter changes only behind the matching status test. Wake-ups and timing are not decided.",
        design="DESIGN.md §3 C17"),
    "C18": dict(
        technique="encoder/decoder layout extraction from the typed syntax tree + constant evaluation + interval bound on narrowing conversions + gate walk + panic reachability over the call graph",
        text="Level 'other': decides, for every ID codec pair, that encoder and decoder agree field by field on order, width and offsets and on the Size constant; that no uintN() conversion in an encoder can truncate a field at the protocol's maximum square size; that decoders return values only behind the exact-length test and a successful Validate; that no explicit panic is reachable from any decoder entry point; that proto converters nil-check. Round-trip equality on values is not decided.",
        design="DESIGN.md §3 C18"),
    "C19": dict(
        technique="exhaustive static enumeration of the RPC surface + gate (must-cross-success-edge) walk on SSA + call-graph sink reachability",
        text="Level 'other': a for-all statement over the program's RPC surface decided on the type-checked SSA - every registered module method has a permission tag and a pure forwarder; the raw service is registered only with auth disabled; the permissioned proxy, default permission set, auth handler and token gate (signature, decoding, expiry) are wired on every path; and by-effect policy: a method whose implementation can reach tx submission / credential minting / libp2p identity-peers-reconfiguration / log reconfiguration sinks must be tagged at least write/admin. This is the quantifier 'every method of every module' that tests sample; the behaviour of the go-jsonrpc proxy and JWT library is assumed.",
        design="DESIGN.md §3 C19"),
}

CHECKS["C11"] = dict(
    technique="gate walks on SSA (blob returned only across the commitment comparison; parse's count and error tests; not-found mapping) + closure/free-variable binding analysis of the verifyFn callbacks + dataflow provenance and expression shape of the start index + sibling agreement of GetAll's per-namespace slots",
    text="Level 'other', the frame around the share parser only: decides that a blob is returned by commitment only if it is the parsed blob of this iteration and only across the comparison of its recomputed commitment with the requested one; that parse builds blob, commitment and index from the collected shares behind its count and error tests; that the shares walked are the requested namespace's data at the requested height; the not-found mapping (getter failure, absence proof, fall-through; only not-found becomes an empty listing); that GetAll collects every parsed blob per namespace in order and joins errors; that the start index derives from row counter x square width + proof start. The parser's state machine over paddings, sequence lengths and row boundaries - the for-all-layouts part of the property - is value-level and NOT decided.",
    design="DESIGN.md §8.7")

NOT_APPLICABLE = {
}

SUFFIX = (" Rules added after seeded-change testing (DESIGN.md §8.2, §8.8) are part of the check: the generic error-discipline rule R<n>.E over the "
          "packages the property rests on, the 'verdict not bypassed' clause, and rules imported from the sibling property that owns a mechanism. "
          "The complete rule list with the instances examined on this run is in the evidence file (coverage.explanation, rules[]).")

ALL = ["C%02d" % i for i in range(1, 21)]


def main():
    checks = []
    na = []
    for pid in ALL:
        if pid in CHECKS:
            c = CHECKS[pid]
            checks.append({
                "property_id": pid,
                "quick_cmd": "./run.sh %s quick" % pid,
                "thorough_cmd": "./run.sh %s thorough" % pid,
                "evidence_file": "evidence/%s.json" % pid,
                "replay_cmd_template": "./bin/celcheck -replay {path}",
                "engine": "celcheck",
                "level_claimed": {"category": "other", "text": c["text"] + SUFFIX, "design_ref": c["design"] + "; as built: DESIGN.md §8"},
                "level_note": TRUST,
                "technique": "static analysis: " + c["technique"],
            })
        else:
            na.append({"property_id": pid, "reason": NOT_APPLICABLE.get(pid, "check not built yet in this revision; planned rules are in DESIGN.md §3 (no claim is made until the rule exists and passes its both-ways test)")})
    m = {
        "version": 1,
        "setup_cmd": "./setup.sh",
        "hooks": {
            "guard": "verif",
            "enable": "none needed: static analysis instruments nothing; no source in /repo is guarded by the tag",
            "baseline_off_cmd": BASELINE,
            "source_commits": [],
            "add_only": True,
        },
        "engines": [{
            "name": "celcheck",
            "path": "checker/",
            "serves_properties": sorted(CHECKS.keys()),
            "kind_free_text": "repository-specific static analyser (Go, x/tools go/packages + go/ssa + VTA/CHA call graph): gate walks with predicate facts, backward dataflow slices, lock-order/guarded-by, acquire/release pairing, panic reachability, table/registry agreement",
        }],
        "checks": checks,
        "not_applicable": na,
        "notes": "All claims are level 'other' (structural necessary conditions decided statically on every run from /repo's working tree). known_findings.json lists genuine defects recorded or fixed. See DESIGN.md.",
    }
    with open(os.path.join(HERE, "MANIFEST.json"), "w") as f:
        json.dump(m, f, indent=1)
        f.write("\n")


if __name__ == "__main__":
    main()
