#!/usr/bin/env python3
"""Confirms seeded changes in a scratch worktree of /repo (outside /repo and /verif)
and files them under /verif/seeded/<id>/ (patch.diff, demo/, meta.json).

For every entry of SEEDS: create a scratch worktree at /repo's HEAD, apply the
patch, `go build ./...`, run the existing tests of the listed packages, copy the
demonstration in and run it (must FAIL), revert the patch and run it again (must
PASS). The worktree is removed afterwards. Nothing is ever applied to /repo here.

usage: confirm_seeds.py [id ...]
"""
import json, os, shutil, subprocess, sys, time

INC = "/verif/seeded_incoming"
OUT = "/verif/seeded"
ENV = dict(os.environ, GOFLAGS="-mod=mod", GOPROXY="off")
ENV.pop("GOWORK", None)

# id: (incoming dir, property, [(demo src rel to change dir, dest rel to repo)], [existing test pkgs], demo go-test args)
SEEDS = {
    "C01-2": ("C01/change2", "C01", [("demo/c01_sample_axis_test.go", "share/shwap/c01_sample_axis_test.go")],
              ["./share/shwap/"], ["-run", "TestC01SampleOutOfRangeProofAxis", "./share/shwap/"]),
    "C04-1": ("C04/change1", "C04", [("demo/seeded_c04_resume_test.go", "das/seeded_c04_resume_test.go")],
              ["./das/"], ["-run", "TestSeededC04_ResumeCoversUnsampledHeights", "./das/"]),
    "C04-2": ("C04/change2", "C04", [("demo/seeded_c04_recent_limit_test.go", "das/seeded_c04_recent_limit_test.go")],
              ["./das/"], ["-run", "TestSeededC04_HeadAnnouncedWhileRecentJobsSaturated", "./das/"]),
    "C13-1": ("C13/change1", "C13", [("demo/c13_retry_count_demo_test.go", "das/c13_retry_count_demo_test.go")],
              ["./das/"], ["-run", "TestC13RetryAttemptCount", "./das/"]),
    "C13-2": ("C13/change2", "C13", [("demo/c13_recent_head_skipped_demo_test.go", "das/c13_recent_head_skipped_demo_test.go")],
              ["./das/"], ["-run", "TestC13EveryKnownHeightIsSampledWhenRecentLimitReached", "./das/"]),
    "C17-1": ("C17/change1", "C17", [("demo/c17_change1_demo_test.go", "share/shwap/p2p/shrex/peers/c17_change1_demo_test.go")],
              ["./share/shwap/p2p/shrex/peers/"], ["-run", "TestC17RemoveCooldownPeerKeepsCount", "./share/shwap/p2p/shrex/peers/"]),
    "C17-2": ("C17/change2", "C17", [("demo/c17_change2_demo_test.go", "share/shwap/p2p/shrex/peers/c17_change2_demo_test.go")],
              ["./share/shwap/p2p/shrex/peers/"], ["-run", "TestC17WaiterNeverGetsUnreachablePeer", "./share/shwap/p2p/shrex/peers/"]),
    "C19-1": ("C19/change1", "C19", [("demo/c19_expired_token_reuse_test.go", "api/rpc/c19_expired_token_reuse_test.go")],
              ["./api/rpc/...", "./libs/authtoken/..."], ["-run", "TestC19_ExpiredTokenGrantsNothing_EvenIfUsedBeforeExpiry", "./api/rpc/"]),
    "C19-2": ("C19/change2", "C19", [("demo/libs_authtoken/c19_payload_alias_test.go", "libs/authtoken/c19_payload_alias_test.go")],
              ["./api/rpc/...", "./libs/authtoken/..."], ["-run", "TestC19_VerifiedPermissionsAreNotSharedBetweenTokens", "./libs/authtoken/"]),
    "C02-1": ("C02/change1", "C02", [("demo/namespace_data_seed_c02_1_test.go", "share/shwap/namespace_data_seed_c02_1_test.go")],
              ["./share/shwap/", "./share/eds/"], ["-run", "TestSeedC02NamespaceDataVerifyChecksEveryRow", "./share/shwap/"]),
    "C02-2": ("C02/change2", "C02", [("demo/row_namespace_data_seed_c02_2_test.go", "share/shwap/row_namespace_data_seed_c02_2_test.go")],
              ["./share/shwap/", "./share/eds/"], ["-run", "TestSeedC02RowNamespaceDataRejectsPartialRange", "./share/shwap/"]),
    "C05-1": ("C05/change1", "C05", [("demo/c05_change1_demo_test.go", "store/c05_change1_demo_test.go")],
              ["./share/eds/", "./store/..."], ["-run", "TestC05Change1_RowHalfAfterSample", "./store/"]),
    "C05-2": ("C05/change2", "C05", [("demo/c05_change2_demo_test.go", "store/file/c05_change2_demo_test.go")],
              ["./store/..."], ["-run", "TestC05Change2_NamespacePaddingLayout", "./store/file/"]),
    "C07-1": ("C07/change1", "C07", [("demo/c07_prealloc_crash_test.go", "store/c07_prealloc_crash_test.go")],
              ["./store/..."], ["-run", "TestC07aCrashDuringQ4Write", "./store/"]),
    "C07-2": ("C07/change2", "C07", [("demo/c07_reput_after_crash_test.go", "store/c07_reput_after_crash_test.go")],
              ["./store/..."], ["-run", "TestC07bRePutAfterCrashDuringODSWrite", "./store/"]),
    "C12-1": ("C12/change1", "C12", [("demo/c12_empty_commitment_proof_test.go", "blob/c12_empty_commitment_proof_test.go")],
              ["./blob/"], ["-run", "TestC12EmptyCommitmentProofIsRejected", "./blob/"]),
    "C12-2": ("C12/change2", "C12", [("demo/c12_range_reslice_test.go", "share/shwap/c12_range_reslice_test.go")],
              ["./share/shwap/", "./share/eds/"], ["-run", "TestC12RangeProofForShiftedRangeIsRejected", "./share/shwap/"]),
    "C15-1": ("C15/change1", "C15", [("demo/seeded_c15_change1_test.go", "share/availability/full/seeded_c15_change1_test.go")],
              ["./share/availability/full/"], ["-run", "TestSeededC15", "./share/availability/full/"]),
    "C15-2": ("C15/change2", "C15", [("demo/seeded_c15_change2_test.go", "core/seeded_c15_change2_test.go")],
              ["./core/"], ["-run", "TestSeededC15_StoreFailureThenRetryFromSecondSource", "./core/"]),
    "C16-1": ("C16/change1", "C16", [("demo/c16_change1_demo_test.go", "header/headertest/c16_change1_demo_test.go")],
              ["./header/..."], ["-run", "TestC16Change1", "./header/headertest/"]),
    "C16-2": ("C16/change2", "C16", [("demo/c16_change2_demo_test.go", "header/headertest/c16_change2_demo_test.go")],
              ["./header/..."], ["-run", "TestC16Change2", "./header/headertest/"]),
    "C18-1": ("C18/change1", "C18", [("demo/seeded_c18_v0_wire_range_test.go", "share/shwap/seeded_c18_v0_wire_range_test.go")],
              ["./share/shwap/"], ["-run", "TestSeededC18RangeIDV0SurvivesWireOrIsRefused", "./share/shwap/"]),
    "C18-2": ("C18/change2", "C18", [("demo/seeded_c18_range_stream_test.go", "share/shwap/seeded_c18_range_stream_test.go")],
              ["./share/shwap/", "./share/shwap/p2p/shrex/..."], ["-run", "TestSeededC18RangeDataSurvivesStream", "./share/shwap/"]),
    "C16-3": ("C16/r2change1", "C16", [("demo/c16_dah_shape_test.go", "header/headertest/c16_dah_shape_test.go")],
              ["./header/..."], ["-run", "TestC16_AddedColumnRoots", "./header/headertest/"]),
    "C16-4": ("C16/r2change2", "C16", [("demo/c16_nonadjacent_trust_test.go", "header/headertest/c16_nonadjacent_trust_test.go")],
              ["./header/..."], ["-run", "TestC16_NonAdjacent", "./header/headertest/"]),
    "C15-3": ("C15/r2change2", "C15", [("demo/core/zz_c15_seed2_listener_test.go", "core/zz_c15_seed2_listener_test.go"), ("demo/full/zz_c15_seed2_avail_test.go", "share/availability/full/zz_c15_seed2_avail_test.go")],
              ["./share/availability/...", "./pruner/..."], ["-run", "TestC15Seed2", "./core/", "./share/availability/full/"]),
    "C14-3": ("C14/r2change1", "C14", [("demo/seeded_c14_failed_retry_test.go", "pruner/seeded_c14_failed_retry_test.go")],
              ["./pruner/...", "./nodebuilder/pruner/..."], ["-run", "TestC14_FailedInEarlierBatchIsStillRetried|TestC14_RepeatedlyFailingBlockIsEventuallyPruned", "./pruner/"]),
    "C05-3": ("C05/r2change1", "C05", [("demo/seeded_c05_1_test.go", "store/seeded_c05_1_test.go")],
              ["./store/..."], ["-run", "TestSeededC05_1_TornODSIsRecoveredOnRePut", "./store/"]),
    "C05-4": ("C05/r2change2", "C05", [("demo/seeded_c05_2_test.go", "store/seeded_c05_2_test.go")],
              ["./store/..."], ["-run", "TestSeededC05_2_FailedFinalWriteIsNotServed", "./store/"]),
    "C03-3": ("C03/r2change1", "C03", [("demo/shwap/seed_c03_prooftype_unit_test.go", "share/shwap/seed_c03_prooftype_unit_test.go"), ("demo/light/seed_c03_prooftype_test.go", "share/availability/light/seed_c03_prooftype_test.go")],
              ["./share/shwap/", "./share/availability/..."], ["-run", "TestSeedC03", "./share/shwap/", "./share/availability/light/"]),
    "C03-4": ("C03/r2change2", "C03", [("demo/light/seed_c03_unverified_container_test.go", "share/availability/light/seed_c03_unverified_container_test.go")],
              ["./share/availability/..."], ["-run", "TestSeedC03InvalidResponsesThenDeadline", "./share/availability/light/"]),
    "C11-1": ("C11/change1", "C11", [("demo/c11_mixed_share_versions_test.go", "blob/c11_mixed_share_versions_test.go")],
              ["./blob/..."], ["-run", "TestC11_MixedShareVersionsInOneNamespace", "./blob/"]),
    "C11-2": ("C11/change2", "C11", [("demo/c11_blob_after_padding_index_test.go", "blob/c11_blob_after_padding_index_test.go")],
              ["./blob/..."], ["-run", "TestC11_BlobAfterPaddedBlobInSameRow", "./blob/"]),
    "C07-3": ("C07/r2change1", "C07", [('demo/c07_crash_put_test.go', 'store/c07_crash_put_test.go')],
              ['./store/...'], ['-run', 'TestC07', './store/']),
    "C07-4": ("C07/r2change2", "C07", [('demo/c07_crash_q4_test.go', 'store/c07_crash_q4_test.go')],
              ['./store/...'], ['-run', 'TestC07KilledDuringQ4WriteThenReput', './store/']),
    "C08-3": ("C08/r2change1", "C08", [('demo/seeded_c08_change1_test.go', 'store/seeded_c08_change1_test.go')],
              ['./store/...'], ['-run', 'TestSeededC08_Change1', './store/']),
    "C08-4": ("C08/r2change2", "C08", [('demo/seeded_c08_change2_test.go', 'store/seeded_c08_change2_test.go')],
              ['./store/...'], ['-run', 'TestSeededC08_Change2', './store/']),
    "C04-3": ("C04/r2change1", "C04", [('demo/c04_change1_demo_test.go', 'das/c04_change1_demo_test.go')],
              ['./das/'], ['-run', 'TestC04Change1_CheckpointCoversWorkerFirstHeight', './das/']),
    "C04-4": ("C04/r2change2", "C04", [('demo/c04_change2_demo_test.go', 'das/c04_change2_demo_test.go')],
              ['./das/'], ['-run', 'TestC04Change2_HeadAnnouncedWhileRecentLimitReached', './das/']),
    "C18-3": ("C18/r2change2", "C18", [('demo/shwap/zz_c18_change2_demo_test.go', 'share/shwap/zz_c18_change2_demo_test.go'), ('demo/bitswap/zz_c18_change2_bitswap_demo_test.go', 'share/shwap/p2p/bitswap/zz_c18_change2_bitswap_demo_test.go')],
              ['./share/shwap/'], ['-run', 'TestC18Change2', './share/shwap/', './share/shwap/p2p/bitswap/']),
    "C12-3": ("C12/r2change1", "C12", [('demo/seeded_c12_change1_test.go', 'blob/seeded_c12_change1_test.go')],
              ['./blob/...'], ['-run', 'TestSeededC12Change1', './blob/']),
    "C12-4": ("C12/r2change2", "C12", [('demo/seeded_c12_change2_test.go', 'blob/seeded_c12_change2_test.go')],
              ['./blob/...'], ['-run', 'TestSeededC12Change2', './blob/']),
    "C02-3": ("C02/r2change1", "C02", [('demo/zz_c02_change1_demo_test.go', 'share/shwap/p2p/bitswap/zz_c02_change1_demo_test.go')],
              ['./share/availability/light/'], ['-run', 'TestC02Change1_DuplicateFetchNeverSucceedsWithUnverifiedRow', './share/shwap/p2p/bitswap/']),
    "C02-4": ("C02/r2change2", "C02", [('demo/zz_c02_change2_demo_test.go', 'share/shwap/p2p/bitswap/zz_c02_change2_demo_test.go')],
              ['./share/availability/light/'], ['-run', 'TestC02Change2_RejectedRowNamespaceDataIsNotKept', './share/shwap/p2p/bitswap/']),
    "C09-3": ("C09/r2change2", "C09", [('demo/c09_change2_demo_test.go', 'share/shwap/p2p/shrex/c09_change2_demo_test.go')],
              ['./share/shwap/p2p/shrex/'], ['-run', 'TestC09Change2_AccessorReleasedWhenMemoryBudgetExhausted', './share/shwap/p2p/shrex/']),
    "C01-3": ("C01/r2change1", "C01", [('demo/sample_block_seed_test.go', 'share/shwap/p2p/bitswap/sample_block_seed_test.go')],
              ['./share/availability/light/'], ['-run', 'TestSeed_SampleRejectedOnceStaysRejected', './share/shwap/p2p/bitswap/']),
    "C01-4": ("C01/r2change2", "C01", [('demo/range_namespace_data_seed_test.go', 'share/shwap/range_namespace_data_seed_test.go')],
              ['./share/shwap/'], ['-run', 'TestSeed_RangeLastRowBorrowedFromNeighbouringRange', './share/shwap/']),
    "C06-3": ("C06/r2change1", "C06", [('demo/block_fetch_same_cid_race_demo_test.go', 'share/shwap/p2p/bitswap/block_fetch_same_cid_race_demo_test.go')],
              ['./share/availability/light/'], ['-run', 'TestFetch_ConcurrentSameCID_AllPopulated', './share/shwap/p2p/bitswap/']),
    "C06-4": ("C06/r2change2", "C06", [('demo/shrex_truncated_nd_demo_test.go', 'share/shwap/p2p/shrex/shrex_getter/shrex_truncated_nd_demo_test.go')],
              ['./share/shwap/', './share/eds/'], ['-run', 'TestShrexGetter_TruncatedNamespaceData|TestNamespaceData_VerifyRejectsMissingRows', './share/shwap/p2p/shrex/shrex_getter/']),
    "C13-3": ("C13/r2change1", "C13", [('demo/catchup_done_boundary_test.go', 'das/catchup_done_boundary_test.go')],
              ['./das/'], ['-run', 'TestCatchUpDoneOnlyWhenNothingLeft', './das/']),
    "C13-4": ("C13/r2change2", "C13", [('demo/recent_limit_head_lost_test.go', 'das/recent_limit_head_lost_test.go')],
              ['./das/'], ['-run', 'TestHeadArrivingAtRecentJobsLimitIsStillSampled', './das/']),
    "C20-3": ("C20/r2change1", "C20", [('demo/c20_change1_demo_test.go', 'blob/c20_change1_demo_test.go')],
              ['./blob/...'], ['-run', 'TestC20Change1', './blob/']),
    "C20-4": ("C20/r2change2", "C20", [('demo/c20_change2_demo_test.go', 'blob/c20_change2_demo_test.go')],
              ['./blob/...'], ['-run', 'TestC20Change2', './blob/']),
    "C17-3": ("C17/r2change1", "C17", [('demo/c17_change1_demo_test.go', 'share/shwap/p2p/shrex/peers/c17_change1_demo_test.go')],
              ['./share/shwap/p2p/shrex/peers/'], ['-run', 'TestC17Change1', './share/shwap/p2p/shrex/peers/']),
    "C17-4": ("C17/r2change2", "C17", [('demo/c17_change2_demo_test.go', 'share/shwap/p2p/shrex/peers/c17_change2_demo_test.go')],
              ['./share/shwap/p2p/shrex/peers/'], ['-run', 'TestC17Change2', './share/shwap/p2p/shrex/peers/']),
    "C19-3": ("C19/r2change1", "C19", [('demo/c19_expired_token_demo_test.go', 'api/rpc/c19_expired_token_demo_test.go')],
              ['./api/rpc/', './api/'], ['-run', 'TestC19_ExpiredTokenGrantsNothing', './api/rpc/']),
    "C19-4": ("C19/r2change2", "C19", [('demo/libs_authtoken/c19_authtoken_demo_test.go', 'libs/authtoken/c19_authtoken_demo_test.go'), ('demo/api_rpc/c19_perm_aliasing_demo_test.go', 'api/rpc/c19_perm_aliasing_demo_test.go')],
              ['./api/rpc/', './api/'], ['-run', 'TestC19_ReadTokenNeverReachesAdmin|TestC19_ExtractedPermissionsAreStable', './api/rpc/', './libs/authtoken/']),
    "C10-3": ("C10/r2change1", "C10", [("demo/seed_c10_change1_test.go", "share/shwap/p2p/bitswap/seed_c10_change1_test.go")],
              ["./share/shwap/", "./share/availability/light/"], ["-run", "TestSeedC10", "./share/shwap/p2p/bitswap/"]),
    "C13-5": ("C13/r3change1", "C13", [('demo/seed_c13_jobid_test.go', 'das/seed_c13_jobid_test.go')],
              ['./das/'], ['-run', 'TestC13_CatchUpNotDoneWhileCatchupJobInFlight|TestC13_CatchupWorkersStayWithinConcurrencyLimit', './das/']),
    "C12-5": ("C12/r3change1", "C12", [('demo/range_shifted_single_row_c12_test.go', 'share/shwap/range_shifted_single_row_c12_test.go')],
              ['./share/shwap/', './share/eds/'], ['-run', 'TestC12RangeVerifyRejectsShiftedSingleRowRange', './share/shwap/']),
    "C12-6": ("C12/r3change2", "C12", [('demo/commitment_proof_empty_c12_test.go', 'blob/commitment_proof_empty_c12_test.go')],
              ['./blob/...'], ['-run', 'TestC12TrimmedCommitmentProofIsRejected', './blob/']),
    "C06-5": ("C06/r3change1", "C06", [('demo/c06_eds_aborted_transfer_demo_test.go', 'share/shwap/p2p/shrex/shrex_getter/c06_eds_aborted_transfer_demo_test.go')],
              ['./share/shwap/p2p/shrex/'], ['-run', 'TestC06_GetEDS_AbortedTransferDoesNotPoisonHonestPeer', './share/shwap/p2p/shrex/shrex_getter/']),
    "C08-5": ("C08/r3change1", "C08", [('demo/c08_change1_demo_test.go', 'store/c08_change1_demo_test.go')],
              ['./store/...'], ['-run', 'TestC08Change1_EmptyBlockRemovalPurgesCache', './store/']),
    "C08-6": ("C08/r3change2", "C08", [('demo/store/c08_change2_store_demo_test.go', 'store/c08_change2_store_demo_test.go'), ('demo/cache/c08_change2_cache_demo_test.go', 'store/cache/c08_change2_cache_demo_test.go')],
              ['./store/...'], ['-run', 'TestC08Change2_', './store/', './store/cache/']),
    "C17-5": ("C17/r3change1", "C17", [('demo/c17_wait_cooldown_demo_test.go', 'share/shwap/p2p/shrex/peers/c17_wait_cooldown_demo_test.go')],
              ['./share/shwap/p2p/shrex/peers/'], ['-run', 'TestC17', './share/shwap/p2p/shrex/peers/']),
    "C17-6": ("C17/r3change2", "C17", [('demo/c17_blacklist_nodes_demo_test.go', 'share/shwap/p2p/shrex/peers/c17_blacklist_nodes_demo_test.go')],
              ['./share/shwap/p2p/shrex/peers/'], ['-run', 'TestC17BlacklistedPeerNeverOfferedAgain', './share/shwap/p2p/shrex/peers/']),
    "C14-4": ("C14/r3change1", "C14", [('demo/prune_orphan_demo_test.go', 'share/availability/full/prune_orphan_demo_test.go')],
              ['./share/availability/...', './pruner/...'], ['-run', 'TestDemoPruneRemovesBlockWithoutHeightLink', './share/availability/full/']),
    "C14-5": ("C14/r3change2", "C14", [('demo/retry_failed_demo_test.go', 'pruner/retry_failed_demo_test.go')],
              ['./pruner/...', './nodebuilder/pruner/...'], ['-run', 'TestDemo', './pruner/']),
    "C11-3": ("C11/r3change1", "C11", [('demo/c11_small_signed_blob_test.go', 'blob/c11_small_signed_blob_test.go')],
              ['./blob/...'], ['-run', 'TestC11SmallSignedBlobBetweenNeighbours', './blob/']),
    "C11-4": ("C11/r3change2", "C11", [('demo/c11_mixed_version_padding_test.go', 'blob/c11_mixed_version_padding_test.go')],
              ['./blob/...'], ['-run', 'TestC11MixedShareVersionsAroundPadding', './blob/']),
    "C05-5": ("C05/r3change1", "C05", [('demo/zz_c05_serving_cache_test.go', 'store/zz_c05_serving_cache_test.go'), ('demo/zz_c05_getorload_evict_test.go', 'store/cache/zz_c05_getorload_evict_test.go')],
              ['./store/...'], ['-run', 'TestC05', './store/', './store/cache/']),
    "C05-6": ("C05/r3change2", "C05", [('demo/zz_c05_empty_block_link_test.go', 'store/zz_c05_empty_block_link_test.go')],
              ['./store/...'], ['-run', 'TestC05EmptyBlock', './store/']),
    "C20-5": ("C20/r3change1", "C20", [('demo/seed_c20_overflow_failing_retrieval_test.go', 'blob/seed_c20_overflow_failing_retrieval_test.go')],
              ['./blob/...'], ['-run', 'TestSeedC20_StalledReaderIsDroppedWhileRetrievalFails', './blob/']),
    "C20-6": ("C20/r3change2", "C20", [('demo/seed_c20_cancel_inflight_retrieval_test.go', 'blob/seed_c20_cancel_inflight_retrieval_test.go')],
              ['./blob/...'], ['-run', 'TestSeedC20_CancelEndsStreamDuringInflightRetrieval', './blob/']),
    "C03-5": ("C03/r3change1", "C03", [('demo/light/reconfig_restart_demo_test.go', 'share/availability/light/reconfig_restart_demo_test.go')],
              ['./share/availability/...'], ['-run', 'TestDemoC03Change1', './share/availability/light/']),
    "C02-5": ("C02/r3change1", "C02", [('demo/namespace_data_extra_rows_demo_test.go', 'share/shwap/namespace_data_extra_rows_demo_test.go')],
              ['./share/shwap/', './share/eds/'], ['-run', 'TestDemoNamespaceDataRejectsExtraRows', './share/shwap/']),
    "C04-5": ("C04/r3change1", "C04", [('demo/seed_c04_change1_test.go', 'das/seed_c04_change1_test.go')],
              ['./das/'], ['-run', 'TestSeedC04Change1', './das/']),
    "C07-5": ("C07/r3change1", "C07", [('demo/crash_q4_first_test.go', 'store/crash_q4_first_test.go')],
              ['./store/...'], ['-run', 'TestCrashWhileQ4WriterRunsAheadOfODS', './store/']),
    "C01-5": ("C01/r3change1", "C01", [('demo/range_reslice_demo_test.go', 'share/shwap/range_reslice_demo_test.go')],
              ['./share/shwap/', './share/eds/'], ['-run', 'TestDemoRangeReslicedAcrossRows', './share/shwap/']),
    "C09-4": ("C09/r3change1", "C09", [('demo/c09_change1_eds_from_disk_test.go', 'share/shwap/p2p/shrex/c09_change1_eds_from_disk_test.go')],
              ['./share/shwap/p2p/shrex/'], ['-run', 'TestC09Change1', './share/shwap/p2p/shrex/']),
    "C16-5": ("C16/r3change1", "C16", [('demo/verify_forged_sigs_test.go', 'header/headertest/verify_forged_sigs_test.go')],
              ['./header/...'], ['-run', 'TestVerifyNonAdjacent', './header/headertest/']),
    "C16-6": ("C16/r3change2", "C16", [('demo/serde_valset_substitution_test.go', 'header/headertest/serde_valset_substitution_test.go')],
              ['./header/...'], ['-run', 'TestReencode', './header/headertest/']),
    "C19-5": ("C19/r3change2", "C19", [('demo/zz_c19_legacy_token_expiry_test.go', 'api/rpc/zz_c19_legacy_token_expiry_test.go')],
              ['./api/rpc/', './api/'], ['-run', 'TestC19_IssuedTokenWithElapsedTTLGrantsNothing', './api/rpc/']),
    "C18-4": ("C18/r3change1", "C18", [('demo/zz_c18_idbuf_demo_test.go', 'share/shwap/zz_c18_idbuf_demo_test.go')],
              ['./share/shwap/'], ['-run', 'TestC18Decoded', './share/shwap/']),
    "C18-5": ("C18/r3change2", "C18", [('demo/zz_c18_stream_eof_demo_test.go', 'share/shwap/zz_c18_stream_eof_demo_test.go')],
              ['./share/shwap/'], ['-run', 'TestC18.*Stream', './share/shwap/']),
    "C06-1": ("C06/change1", "C06", [("demo/sample_unverified_demo_test.go", "share/shwap/p2p/bitswap/sample_unverified_demo_test.go")],
              ["./share/shwap/p2p/bitswap/"], ["-run", "TestDemo_GetSamples", "./share/shwap/p2p/bitswap/"]),
    "C06-2": ("C06/change2", "C06", [("demo/eds_retry_demo_test.go", "share/shwap/p2p/shrex/shrex_getter/eds_retry_demo_test.go")],
              ["./share/shwap/p2p/shrex/"], ["-run", "TestDemo_GetEDS", "./share/shwap/p2p/shrex/shrex_getter/"]),
    "C01-1": ("C01/change1", "C01", [("demo/c01_range_reslice_test.go", "share/shwap/c01_range_reslice_test.go")],
              ["./share/shwap/"], ["-run", "TestC01RangeReslicedAcrossRows", "./share/shwap/"]),
    "C03-1": ("C03/change1", "C03", [("demo/c03_empty_response_test.go", "share/availability/light/c03_empty_response_test.go")],
              ["./share/availability/light/"], ["-run", "TestC03NothingRetrievedIsNotAvailable", "./share/availability/light/"]),
    "C03-2": ("C03/change2", "C03", [("demo/c03_forged_sample_test.go", "share/availability/light/c03_forged_sample_test.go")],
              ["./share/availability/light/"], ["-run", "TestC03ForgedSamplesNeverBecomeSampled", "./share/availability/light/"]),
    "C09-1": ("C09/change1", "C09", [("demo/server_accessor_release_demo_test.go", "share/shwap/p2p/shrex/server_accessor_release_demo_test.go")],
              ["./share/shwap/p2p/shrex/"], ["-run", "TestDemo_ServerReleasesAccessorOnOversizedRange", "./share/shwap/p2p/shrex/"]),
    "C09-2": ("C09/change2", "C09", [("demo/sample_then_row_demo_test.go", "share/shwap/p2p/shrex/sample_then_row_demo_test.go")],
              ["./share/eds/", "./share/shwap/p2p/shrex/"], ["-run", "TestDemo_RowAndEDSAfterSample", "./share/shwap/p2p/shrex/"]),
    "C10-1": ("C10/change1", "C10", [("demo/c10_change1_demo_test.go", "share/shwap/p2p/bitswap/c10_change1_demo_test.go")],
              ["./share/shwap/p2p/bitswap/"], ["-run", "TestC10_ForgedSampleRedelivered|TestC10_GetterNeverReturnsForgedSamples", "./share/shwap/p2p/bitswap/"]),
    "C10-2": ("C10/change2", "C10", [("demo/c10_change2_demo_test.go", "share/shwap/p2p/bitswap/c10_change2_demo_test.go")],
              ["./share/shwap/p2p/bitswap/"], ["-run", "TestC10_ConcurrentFetchSameIdentifier", "./share/shwap/p2p/bitswap/"]),
    "C14-1": ("C14/change1", "C14", [("demo/c14_window_slowchain_test.go", "pruner/c14_window_slowchain_test.go")],
              ["./pruner/..."], ["-run", "TestC14_SlowChainFirstBatchRespectsWindow", "./pruner/"]),
    "C14-2": ("C14/change2", "C14", [("demo/c14_ondelete_race_test.go", "pruner/c14_ondelete_race_test.go")],
              ["./pruner/..."], ["-run", "TestC14_OnDeleteConcurrentWithCycleKeepsCheckpointMonotonic", "./pruner/"]),
    "C20-1": ("C20/change1", "C20", [("demo/subscribe_retry_gap_demo_test.go", "blob/subscribe_retry_gap_demo_test.go")],
              ["./blob/"], ["-run", "TestSubscribeDemo_TransientFailureMustNotSkipHeight", "./blob/"]),
    "C20-2": ("C20/change2", "C20", [("demo/subscribe_overflow_demo_test.go", "blob/subscribe_overflow_demo_test.go")],
              ["./blob/"], ["-run", "TestSubscribeDemo_SlowReaderWithinBufferIsNotDropped", "./blob/"]),
    "C08-1": ("C08/change1", "C08", [("demo/store/cache/c08_getorload_demo_test.go", "store/cache/c08_getorload_demo_test.go")],
              ["./store/..."], ["-run", "TestC08", "./store/cache/"]),
    "C08-2": ("C08/change2", "C08", [("demo/store/c08_cached_get_remove_deadlock_demo_test.go", "store/c08_cached_get_remove_deadlock_demo_test.go")],
              ["./store/..."], ["-run", "TestC08_CachedGetVsRemoveTerminates_Forced", "./store/"]),
}


def sh(cmd, cwd, timeout=1500):
    t0 = time.time()
    try:
        r = subprocess.run(cmd, cwd=cwd, env=ENV, stdout=subprocess.PIPE, stderr=subprocess.STDOUT, text=True, errors="replace", timeout=timeout)
        return r.returncode, r.stdout, time.time() - t0
    except subprocess.TimeoutExpired as e:
        return 124, (e.stdout or "") + "\nTIMEOUT", time.time() - t0


def tail(s, n=12):
    lines = [l for l in s.splitlines() if not l.startswith("20")]
    return "\n".join(lines[-n:])


def confirm(sid):
    inc, prop, demos, pkgs, demo_args = SEEDS[sid]
    src = os.path.join(INC, inc)
    wt = "/tmp/sw_" + sid
    log = {"id": sid, "property": prop, "steps": []}
    subprocess.run(["git", "-C", "/repo", "worktree", "remove", "--force", wt], stdout=subprocess.DEVNULL, stderr=subprocess.DEVNULL)
    rc, out, _ = sh(["git", "-C", "/repo", "worktree", "add", "--detach", wt, "HEAD"], "/repo")
    head = subprocess.run(["git", "-C", "/repo", "rev-parse", "--short", "HEAD"], stdout=subprocess.PIPE, text=True).stdout.strip()
    log["repo_head"] = head
    ok = True
    try:
        patch = os.path.join(src, "patch.diff")
        rebased = os.path.join(src, "patch.rebased.diff")
        if os.path.exists(rebased):
            patch = rebased
        rc, out, _ = sh(["git", "apply", patch], wt)
        log["steps"].append({"step": "git apply", "rc": rc, "out": tail(out, 5)})
        if rc != 0:
            return log, False
        rc, out, dt = sh(["go", "build", "./..."], wt)
        log["steps"].append({"step": "go build ./...", "rc": rc, "s": round(dt, 1), "out": tail(out, 8)})
        ok &= rc == 0
        rc, out, dt = sh(["go", "test", "-count=1"] + pkgs, wt)
        if rc != 0:
            # load-induced flakes: retry once
            rc2, out2, dt2 = sh(["go", "test", "-count=1"] + pkgs, wt)
            log["steps"].append({"step": "existing tests (1st run failed, retried)", "rc_first": rc, "first_out": tail(out, 10), "rc": rc2, "s": round(dt2, 1), "out": tail(out2, 10)})
            rc = rc2
        else:
            log["steps"].append({"step": "existing tests with change: go test -count=1 " + " ".join(pkgs), "rc": rc, "s": round(dt, 1), "out": tail(out, 6)})
        ok &= rc == 0
        for s, d in demos:
            os.makedirs(os.path.dirname(os.path.join(wt, d)), exist_ok=True)
            shutil.copy(os.path.join(src, s), os.path.join(wt, d))
        rc, out, dt = sh(["go", "test", "-count=1"] + demo_args, wt)
        log["steps"].append({"step": "demo WITH change (must fail): go test -count=1 " + " ".join(demo_args), "rc": rc, "s": round(dt, 1), "out": tail(out, 14)})
        ok &= rc != 0 and "build failed" not in out
        rc, out, _ = sh(["git", "apply", "-R", patch], wt)
        rc, out, dt = sh(["go", "test", "-count=1"] + demo_args, wt)
        if rc != 0:
            rc, out, dt = sh(["go", "test", "-count=1"] + demo_args, wt)
        log["steps"].append({"step": "demo WITHOUT change (must pass)", "rc": rc, "s": round(dt, 1), "out": tail(out, 8)})
        ok &= rc == 0
    finally:
        subprocess.run(["git", "-C", "/repo", "worktree", "remove", "--force", wt], stdout=subprocess.DEVNULL, stderr=subprocess.DEVNULL)
        shutil.rmtree(wt, ignore_errors=True)
    return log, ok


def main():
    ids = sys.argv[1:] or list(SEEDS)
    for sid in ids:
        log, ok = confirm(sid)
        log["confirmed"] = ok
        inc, prop, demos, pkgs, demo_args = SEEDS[sid]
        src = os.path.join(INC, inc)
        print(sid, "CONFIRMED" if ok else "NOT-CONFIRMED", flush=True)
        dst = os.path.join(OUT, sid)
        if ok:
            shutil.rmtree(dst, ignore_errors=True)
            os.makedirs(os.path.join(dst, "demo"), exist_ok=True)
            p = os.path.join(src, "patch.rebased.diff")
            shutil.copy(p if os.path.exists(p) else os.path.join(src, "patch.diff"), os.path.join(dst, "patch.diff"))
            for s, d in demos:
                shutil.copy(os.path.join(src, s), os.path.join(dst, "demo", os.path.basename(d)))
            meta = {}
            try:
                meta = json.load(open(os.path.join(src, "meta.json")))
            except Exception:
                pass
            meta_out = {
                "property": prop,
                "summary": meta.get("summary"),
                "why_breaks": meta.get("why_breaks"),
                "needs_to_manifest": meta.get("needs_to_manifest"),
                "demo_placement": [{"file": os.path.basename(d), "place_at": d} for s, d in demos],
                "demo_command": "go test -count=1 " + " ".join(demo_args),
                "confirmation": log,
            }
            json.dump(meta_out, open(os.path.join(dst, "meta.json"), "w"), indent=1)
        else:
            os.makedirs(OUT, exist_ok=True)
            json.dump(log, open(os.path.join(OUT, sid + ".NOT_CONFIRMED.json"), "w"), indent=1)


if __name__ == "__main__":
    main()
