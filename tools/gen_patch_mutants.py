#!/usr/bin/env python3
"""Regenerates the patch-based entries of /verif/mutants/<prop>.json:
  * revert-fix-<commit>: the reverse of a 'fix:' commit in /repo (the pinned tree's defect comes back)
  * seed-<id>: a confirmed seeded change from /verif/seeded/<id>/patch.diff
Hand-written old/new mutants in the same files are kept as they are."""
import json, os, subprocess
V = "/verif"
FIXES = {  # commit -> (property, expected rule prefix, what)
    "df553f2": ("C01", "R1.2", "range proof presence not bound to the request"),
    "78fecb5": ("C18", "R18.2", "V0 range id truncates indexes above 16 bits"),
    "d95ae77": ("C18", "R18.3", "RowNamespaceDataIDFromBinary returns without Validate"),
    "fecf634": ("C18", "R18.4", "panic on unknown row side reachable from a decoder"),
    "be747b5": ("C12", "R12.", "blob.Proof.equal on nil/short proofs"),
    "5ca10f0": ("C12", "R12.", "GetRangeResult.Verify nil proof / count mismatch"),
    "f36f655": ("C12", "R12.", "CommitmentProof.Validate accepts nil subtree root proofs"),
    "93fd4c5": ("C20", "R20.", "retry loop ignores the service context"),
    "f827021": ("C07", "R7.", "file descriptors leaked on bad header / after size validation"),
    "80c6e24": ("C10", "R10.6", "hasher does not bind the outer multihash code: a sample block fulfils a row request"),
    "7b1f742": ("C14", "R14.7", "a round refetches a completely failed batch forever"),
    "ce6f01d": ("C17", "R17.8", "stale cool-down entry re-activates a re-added peer ahead of its second cool-down"),
}
SEED_EXPECT = {
    "C01-1": "R1.2", "C01-2": "R1.2", "C02-1": "R2.1", "C02-2": "R2.2", "C03-1": "R3.2", "C03-2": "R3.6",
    "C04-1": "R4.1", "C04-2": "R4.3", "C05-1": "R5.4", "C05-2": "R5.3", "C06-1": "R6.", "C06-2": "R6.",
    "C07-1": "R7.6", "C07-2": "R7.7", "C08-1": "R8.3", "C08-2": "R8.1", "C09-1": "R9.1", "C09-2": "R9.8",
    "C10-1": "R10.1", "C10-2": "R10.2", "C12-1": "R12.2", "C12-2": "R12.5", "C13-1": "R13.4", "C13-2": "R13.2",
    "C14-1": "R14.2", "C14-2": "R14.5", "C15-1": "R15.1", "C15-2": "R15.2", "C16-1": "R16.1", "C16-2": "R16.1",
    "C17-1": "R17.7", "C17-2": "R17.5", "C18-1": "R18.2", "C18-2": "R18.7", "C19-1": "R19.2d", "C19-2": "R19.3a",
    "C20-1": "R20.1", "C20-2": "R20.4",
    "C16-3": "R16.1", "C16-4": "R16.1", "C15-3": "R15.3", "C14-3": "R14.6", "C05-3": "R5.6", "C05-4": "R5.5",
    "C07-3": "R7.7", "C07-4": "R7.6", "C08-3": "R8.7", "C08-4": "R8.8", "C04-3": "R4.1", "C04-4": "R4.3", "C18-3": "R18.3",
    "C12-3": "R12.2", "C12-4": "R12.6", "C02-3": "R2.5", "C02-4": "R2.4", "C09-3": "R9.1", "C01-3": "R1.4", "C01-4": "R1.2",
    "C06-3": "R6.7", "C06-4": "R6.7", "C13-3": "R13.3", "C13-4": "R13.2", "C20-3": "R20.5", "C20-4": "R20.2", "C17-3": "R17.5", "C17-4": "R17.",
    "C10-3": "R10.7", "C19-3": "R19.2d", "C19-4": "R19.3a",
    "C13-5": "R13.5", "C12-5": "R12.5", "C12-6": "R12.2", "C06-5": "R6.1", "C08-5": "R8.9", "C08-6": "R8.8", "C17-5": "R17.5", "C17-6": "R17.5",
    "C14-4": "R14.3", "C14-5": "R14.6", "C11-3": "R11.9", "C11-4": "R11.9", "C05-5": "R5.8", "C05-6": "R5.7",
    "C20-5": "R20.4", "C20-6": "R20.5", "C03-5": "R3.5", "C02-5": "R2.1",
    "C04-5": "R4.1", "C07-5": "R7.8", "C01-5": "R1.3", "C09-4": "R9.1", "C16-5": "R16.1", "C16-6": "R16.4", "C19-5": "R19.3b", "C18-4": "R18.1", "C18-5": "R18.8",
    "C03-3": "R3.6", "C03-4": "R3.6", "C11-1": "R11.7", "C11-2": "R11.6",
}
byprop = {}
for c, (prop, exp, what) in FIXES.items():
    diff = subprocess.run(["git", "-C", "/repo", "show", "--format=", c], stdout=subprocess.PIPE, text=True, check=True).stdout
    path = f"mutants/fixes/{prop}-{c}.diff"
    open(os.path.join(V, path), "w").write(diff)
    byprop.setdefault(prop, []).append({"name": f"revert-fix-{c}", "patch": path, "reverse": True, "expect": exp, "why": "pinned tree's defect: " + what})
for sid in sorted(os.listdir(os.path.join(V, "seeded"))):
    if not os.path.isfile(os.path.join(V, "seeded", sid, "patch.diff")):
        continue
    prop = sid.split("-")[0]
    byprop.setdefault(prop, []).append({"name": "seed-" + sid, "patch": f"seeded/{sid}/patch.diff", "expect": SEED_EXPECT.get(sid, ""), "why": "confirmed seeded change, see seeded/%s/meta.json" % sid})
for prop, gen in byprop.items():
    p = os.path.join(V, "mutants", prop + ".json")
    cur = json.load(open(p)) if os.path.exists(p) else []
    cur = [m for m in cur if not m.get("patch")]
    # non-benign first, benign last
    out = [m for m in cur if not m.get("benign")] + gen + [m for m in cur if m.get("benign")]
    json.dump(out, open(p, "w"), indent=1)
    print(prop, len(out), "mutants (%d patch-based)" % len(gen))
