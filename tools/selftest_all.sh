#!/bin/bash
# dev helper: run the both-ways self-tests of the given properties against a snapshot worktree of /repo
# (so that /repo can be edited meanwhile). usage: selftest_all.sh <snapdir> C01 C02 ...
SNAP="$1"; shift
for p in "$@"; do
  /verif/bin/celcheck.st -repo "$SNAP" -selftest -prop $p 2>&1 | grep "MUTANT" > /tmp/selftest_$p.log
done
echo alldone > /tmp/selftest_done
