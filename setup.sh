#!/bin/bash
# Builds the checker offline and warms the Go build cache with one full load of
# /repo (go list -export compiles the dependency closure on a cold cache).
set -eu
cd "$(dirname "$0")"
export GOFLAGS=-mod=mod GOPROXY=off
unset GOWORK GOSUMDB GOTOOLCHAIN
mkdir -p bin evidence
( cd checker && go build -o ../bin/celcheck . )
./bin/celcheck -repo "${VERIF_REPO:-/repo}" -warm
