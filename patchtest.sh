#!/bin/bash
# usage: patchtest.sh <prop> <patch.diff>  - evaluates a property's quick check on /repo + patch through an
# overlay. /repo is not modified and no evidence is written under /verif (scratch verif dir under /tmp).
set -u
P="$1"; PATCH="$2"
S=$(mktemp -d /tmp/vscratch.XXXX); mkdir -p "$S/evidence"; cp /verif/known_findings.json "$S/"
${CELCHECK:-/verif/bin/celcheck} -prop "$P" -patch "$PATCH" -verif "$S" 2>&1 | grep -E "FINDING|VIOLATION|SUMMARY|UNRESOLVED|PATCH-DOES" | cut -c1-300
rm -rf "$S"
